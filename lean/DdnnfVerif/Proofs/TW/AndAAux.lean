/-
  Helpers for `AndA.lean`: the oracle interleaving `mergeLR`/`pickLR`, the structure of
  `zipSamplesA`, the members of `crossLiterals`, `sortByLenStable`.
-/
import DdnnfVerif.Proofs.TW.DefsA
namespace Ddnnf.TW

variable (nodes : List NType) (n : Nat)

/-! ### `merge_sorted_configs` with given comparison results: an interleaving -/

theorem mergeLR_perm {α} : ∀ (bs : List Bool) (l r m : List α), mergeLR bs l r = some m → m.Perm (l ++ r) := by
  intro bs l r
  fun_induction mergeLR bs l r
  case case1 =>
    intro m hm; injection hm with hm; subst hm; simp
  case case2 => intro m hm; cases hm
  case case3 =>
    intro m hm; injection hm with hm; subst hm; simp
  case case4 => intro m hm; cases hm
  case case5 => intro m hm; cases hm
  case case6 bs x l y r ih =>
    intro m hm
    rw [Option.map_eq_some_iff] at hm
    obtain ⟨m', hm', rfl⟩ := hm
    exact (ih m' hm').cons x
  case case7 b bs x l y r _ ih =>
    intro m hm
    rw [Option.map_eq_some_iff] at hm
    obtain ⟨m', hm', rfl⟩ := hm
    refine ((ih m' hm').cons y).trans ?_
    exact (List.perm_middle (a := y) (l₁ := x :: l) (l₂ := r)).symm

theorem pickLR_perm {α} (l r : List α) (q : Queue) : (pickLR l r q).1.Perm (l ++ r) := by
  unfold pickLR
  split
  · split
    · rename_i m hm
      exact mergeLR_perm _ _ _ _ hm
    · exact List.Perm.refl _
  · exact List.Perm.refl _

theorem sortedCfgs_perm (s : Sample) (q : Queue) : (sortedCfgs s q).1.Perm s.all := by
  unfold sortedCfgs Sample.all
  exact (pickLR_perm _ _ q).trans List.perm_append_comm

theorem sortedCfgs_length (s : Sample) (q : Queue) : (sortedCfgs s q).1.length = s.len := by
  rw [len_eq]
  exact (sortedCfgs_perm s q).length_eq

theorem mem_sortedCfgs (s : Sample) (q : Queue) (c : Cfg) : c ∈ (sortedCfgs s q).1 ↔ c ∈ s.all :=
  (sortedCfgs_perm s q).mem_iff

/-! ### a fold of `Sample.add` -/

theorem addFold_spec : ∀ (cs : List Cfg) (s : Sample),
    (cs.foldl Sample.add s).vars = s.vars ∧
    (cs.foldl Sample.add s).literals = s.literals ∧
    (∀ x, x ∈ (cs.foldl Sample.add s).all ↔ x ∈ s.all ∨ x ∈ cs) ∧
    (∀ x ∈ (cs.foldl Sample.add s).complete, x ∈ s.complete ∨ (x ∈ cs ∧ x.nd = s.vars.length)) := by
  intro cs
  induction cs with
  | nil => intro s; exact ⟨rfl, rfl, fun x => by simp, fun x hx => Or.inl hx⟩
  | cons c cs ih =>
    intro s
    rw [List.foldl_cons]
    obtain ⟨a1, a2, a3⟩ := add_spec_sample s c
    have a0 : (s.add c).literals = s.literals := by
      unfold Sample.add
      split <;> rfl
    obtain ⟨b1, b0, b2, b3⟩ := ih (s.add c)
    refine ⟨b1.trans a1, b0.trans a0, fun x => ?_, fun x hx => ?_⟩
    · rw [b2, a2, List.mem_cons, or_assoc]
    · rcases b3 x hx with h | ⟨h1, h2⟩
      · rcases a3 x h with h' | ⟨h1, h2⟩
        · exact Or.inl h'
        · exact Or.inr ⟨h1 ▸ List.mem_cons_self .., h1 ▸ h2⟩
      · exact Or.inr ⟨List.mem_cons_of_mem _ h1, by rw [h2, a1]⟩

/-! ### the structure of `zipSamplesA` -/

/-- the pairs -/
def zipPairsA (l r : Sample) (n : Nat) (q : Queue) : List Cfg :=
  ((sortedCfgs l q).1.zip (sortedCfgs r (sortedCfgs l q).2).1).map fun p => Cfg.fromDisjoint p.1 p.2 n

/-- what is kept of the longer operand -/
def zipRestA (l r : Sample) (q : Queue) : List Cfg :=
  if l.len ≥ r.len then (sortedCfgs l q).1.drop r.len else (sortedCfgs r (sortedCfgs l q).2).1.drop l.len

theorem zipSamplesA_eq (l r : Sample) (q : Queue) :
    (zipSamplesA l r n q).1 =
      (zipPairsA l r n q ++ zipRestA l r q).foldl Sample.add (Sample.fromSamples [l, r]) := by
  rw [List.foldl_append]
  unfold zipPairsA
  rw [List.foldl_map]
  rfl

theorem zipSamplesA_vars (l r : Sample) (q : Queue) :
    (zipSamplesA l r n q).1.vars = setOfNat (l.vars ++ r.vars) := by
  rw [zipSamplesA_eq, (addFold_spec _ _).1]
  simp [Sample.fromSamples]

theorem zipSamplesA_literals (l r : Sample) (q : Queue) :
    (zipSamplesA l r n q).1.literals = setOfInt (l.literals ++ r.literals) := by
  rw [zipSamplesA_eq, (addFold_spec _ _).2.1]
  simp [Sample.fromSamples]

theorem mem_zipSamplesA_all (l r : Sample) (q : Queue) (c : Cfg) :
    c ∈ (zipSamplesA l r n q).1.all ↔ c ∈ zipPairsA l r n q ∨ c ∈ zipRestA l r q := by
  rw [zipSamplesA_eq, (addFold_spec _ _).2.2.1, List.mem_append]
  simp [Sample.fromSamples, Sample.all]

theorem mem_zipSamplesA_complete (l r : Sample) (q : Queue) (c : Cfg)
    (hc : c ∈ (zipSamplesA l r n q).1.complete) : c.nd = (zipSamplesA l r n q).1.vars.length := by
  have hv : (zipSamplesA l r n q).1.vars = (Sample.fromSamples [l, r]).vars := by
    rw [zipSamplesA_eq, (addFold_spec _ _).1]
  rw [hv]
  rw [zipSamplesA_eq] at hc
  rcases (addFold_spec _ _).2.2.2 c hc with h | h
  · simp [Sample.fromSamples] at h
  · exact h.2

theorem mem_zipPairsA (l r : Sample) (q : Queue) (c : Cfg) :
    c ∈ zipPairsA l r n q ↔
      ∃ a b, (a, b) ∈ (sortedCfgs l q).1.zip (sortedCfgs r (sortedCfgs l q).2).1 ∧
        c = Cfg.fromDisjoint a b n := by
  unfold zipPairsA
  rw [List.mem_map]
  constructor
  · rintro ⟨p, hp, rfl⟩; exact ⟨p.1, p.2, hp, rfl⟩
  · rintro ⟨a, b, hp, rfl⟩; exact ⟨(a, b), hp, rfl⟩

theorem zipRestA_sub (l r : Sample) (q : Queue) (c : Cfg) (hc : c ∈ zipRestA l r q) :
    c ∈ l.all ∨ c ∈ r.all := by
  unfold zipRestA at hc
  split at hc
  · exact Or.inl ((mem_sortedCfgs l q c).mp (List.mem_of_mem_drop hc))
  · exact Or.inr ((mem_sortedCfgs r _ c).mp (List.mem_of_mem_drop hc))

/-- every configuration of the left operand survives, alone or inside a pair -/
theorem zipA_left (l r : Sample) (q : Queue) (a : Cfg) (ha : a ∈ l.all) :
    a ∈ zipRestA l r q ∨ ∃ b, (a, b) ∈ (sortedCfgs l q).1.zip (sortedCfgs r (sortedCfgs l q).2).1 := by
  have ha' := (mem_sortedCfgs l q a).mpr ha
  rcases mem_zip_or_drop _ (sortedCfgs r (sortedCfgs l q).2).1 a ha' with h | hd
  · exact Or.inr h
  · left
    rw [sortedCfgs_length] at hd
    unfold zipRestA
    have hlt : r.len < l.len := by
      apply Classical.byContradiction
      intro hge
      rw [List.drop_eq_nil_of_le (by rw [sortedCfgs_length]; omega)] at hd
      cases hd
    rw [if_pos (by omega)]
    exact hd

theorem zipA_right (l r : Sample) (q : Queue) (b : Cfg) (hb : b ∈ r.all) :
    b ∈ zipRestA l r q ∨ ∃ a, (a, b) ∈ (sortedCfgs l q).1.zip (sortedCfgs r (sortedCfgs l q).2).1 := by
  have hb' := (mem_sortedCfgs r (sortedCfgs l q).2 b).mpr hb
  rcases mem_zip_or_drop' (sortedCfgs l q).1 _ b hb' with h | hd
  · exact Or.inr h
  · left
    rw [sortedCfgs_length] at hd
    unfold zipRestA
    have hlt : l.len < r.len := by
      apply Classical.byContradiction
      intro hge
      rw [List.drop_eq_nil_of_le (by rw [sortedCfgs_length]; omega)] at hd
      cases hd
    rw [if_neg (by omega)]
    exact hd

theorem zipSamplesA_nonempty (l r : Sample) (q : Queue) (hl : l.all ≠ []) (hr : r.all ≠ []) :
    (zipSamplesA l r n q).1.all ≠ [] := by
  have h1 : (sortedCfgs l q).1 ≠ [] := fun h => hl (by have := sortedCfgs_perm l q; rw [h] at this; exact this.symm.eq_nil)
  have h2 : (sortedCfgs r (sortedCfgs l q).2).1 ≠ [] :=
    fun h => hr (by have := sortedCfgs_perm r (sortedCfgs l q).2; rw [h] at this; exact this.symm.eq_nil)
  obtain ⟨x, xs, hx⟩ := List.exists_cons_of_ne_nil h1
  obtain ⟨y, ys, hy⟩ := List.exists_cons_of_ne_nil h2
  have : Cfg.fromDisjoint x y n ∈ (zipSamplesA l r n q).1.all := by
    rw [mem_zipSamplesA_all, mem_zipPairsA]
    exact Or.inl ⟨x, y, by rw [hx, hy]; simp, rfl⟩
  exact List.ne_nil_of_mem this

/-! ### `zipSamplesA` of two samples over independent variable sets -/

theorem zipSamplesA_inv (p : Nat) (V1 V2 : List Nat) (hind : Indep nodes p V1 V2) (l r : Sample)
    (hl : SampleInv nodes n p V1 l) (hr : SampleInv nodes n p V2 r) (q : Queue) :
    SampleInv nodes n p (V1 ++ V2) (zipSamplesA l r n q).1 := by
  refine ⟨?_, ?_, ?_, ?_⟩
  · rw [zipSamplesA_vars]; exact setOfNat_nodup _
  · intro v
    rw [zipSamplesA_vars, mem_setOfNat, List.mem_append, List.mem_append, hl.vars_mem, hr.vars_mem]
  · intro c hc
    rw [mem_zipSamplesA_all] at hc
    rcases hc with hc | hc
    · obtain ⟨a, b, hab, rfl⟩ := (mem_zipPairsA n l r q c).mp hc
      have hq' := List.of_mem_zip hab
      exact (cfgAt_fromDisjoint nodes n p V1 V2 hind a b
        (hl.cfgs _ ((mem_sortedCfgs l q a).mp hq'.1)) (hr.cfgs _ ((mem_sortedCfgs r _ b).mp hq'.2))).1
    · rcases zipRestA_sub l r q c hc with h | h
      · exact cfgAt_mono nodes n p (fun v hv => List.mem_append_left _ hv) (hl.cfgs c h)
      · exact cfgAt_mono nodes n p (fun v hv => List.mem_append_right _ hv) (hr.cfgs c h)
  · exact fun c hc => mem_zipSamplesA_complete n l r q c hc

theorem zipSamplesA_keeps (p : Nat) (V1 V2 : List Nat) (hind : Indep nodes p V1 V2) (l r : Sample)
    (hl : SampleInv nodes n p V1 l) (hr : SampleInv nodes n p V2 r) (q : Queue) :
    KeepsCover n l (zipSamplesA l r n q).1 ∧ KeepsCover n r (zipSamplesA l r n q).1 := by
  have hpair : ∀ a b, (a, b) ∈ (sortedCfgs l q).1.zip (sortedCfgs r (sortedCfgs l q).2).1 →
      Cfg.fromDisjoint a b n ∈ (zipSamplesA l r n q).1.all ∧
      CfgOK n (Cfg.fromDisjoint a b n) ∧
      ∀ x, x ∈ (Cfg.fromDisjoint a b n).decided ↔ x ∈ a.decided ∨ x ∈ b.decided := by
    intro a b hab
    have hq' := List.of_mem_zip hab
    obtain ⟨c1, c2, _⟩ := cfgAt_fromDisjoint nodes n p V1 V2 hind a b
      (hl.cfgs _ ((mem_sortedCfgs l q a).mp hq'.1)) (hr.cfgs _ ((mem_sortedCfgs r _ b).mp hq'.2))
    exact ⟨(mem_zipSamplesA_all n l r q _).mpr (Or.inl ((mem_zipPairsA n l r q _).mpr ⟨a, b, hab, rfl⟩)),
      c1.ok, c2⟩
  constructor
  · apply keepsCover_of_grow n l _ (fun c hc => (hl.cfgs c hc).ok)
    intro a ha
    rcases zipA_left l r q a ha with h | ⟨b, hab⟩
    · exact ⟨a, (mem_zipSamplesA_all n l r q a).mpr (Or.inr h), (hl.cfgs a ha).ok, fun x hx => hx⟩
    · obtain ⟨k1, k2, k3⟩ := hpair a b hab
      exact ⟨_, k1, k2, fun x hx => (k3 x).mpr (Or.inl hx)⟩
  · apply keepsCover_of_grow n r _ (fun c hc => (hr.cfgs c hc).ok)
    intro b hb
    rcases zipA_right l r q b hb with h | ⟨a, hab⟩
    · exact ⟨b, (mem_zipSamplesA_all n l r q b).mpr (Or.inr h), (hr.cfgs b hb).ok, fun x hx => hx⟩
    · obtain ⟨k1, k2, k3⟩ := hpair a b hab
      exact ⟨_, k1, k2, fun x hx => (k3 x).mpr (Or.inr hx)⟩

/-! ### the interactions `AttributeZippingMerger::merge` collects -/

theorem mem_crossLiterals (l r : Sample) (t : Nat) (z : Sample) (X : List Int) :
    X ∈ crossLiterals l r t z ↔
      (∃ k, 1 ≤ k ∧ k < t ∧ ∃ a ∈ tIter l.literals (min l.literals.length k),
        ∃ b ∈ tIter r.literals (min r.literals.length (t - k)), X = a ++ b) ∧ z.covers X = false := by
  unfold crossLiterals
  rw [List.mem_filter, List.mem_flatMap]
  apply and_congr
  · constructor
    · rintro ⟨k, hk, hX⟩
      rw [List.mem_map] at hk
      obtain ⟨j, hj, rfl⟩ := hk
      rw [List.mem_range] at hj
      rw [List.mem_flatMap] at hX
      obtain ⟨a, ha, hX⟩ := hX
      rw [List.mem_map] at hX
      obtain ⟨b, hb, rfl⟩ := hX
      exact ⟨j + 1, by omega, by omega, a, ha, b, hb, rfl⟩
    · rintro ⟨k, hk1, hkt, a, ha, b, hb, rfl⟩
      refine ⟨k, ?_, ?_⟩
      · rw [List.mem_map]
        exact ⟨k - 1, List.mem_range.mpr (by omega), by omega⟩
      · rw [List.mem_flatMap]
        exact ⟨a, ha, List.mem_map.mpr ⟨b, hb, rfl⟩⟩
  · cases z.covers X <;> simp

theorem covers_nil (s : Sample) (hs : s.all ≠ []) : s.covers [] = true := by
  unfold Sample.covers
  rw [List.any_eq_true]
  obtain ⟨c, cs, hc⟩ := List.exists_cons_of_ne_nil hs
  exact ⟨c, by rw [hc]; exact List.mem_cons_self .., rfl⟩

/-! ### `sortByLenStable` -/

theorem insertByLenStable_perm (s : Sample) (l : List Sample) : (insertByLenStable s l).Perm (s :: l) := by
  induction l with
  | nil => exact List.Perm.refl _
  | cons y ys ih =>
    unfold insertByLenStable
    split
    · exact List.Perm.refl _
    · exact (ih.cons y).trans (List.Perm.swap s y ys)

theorem sortByLenStable_perm (ss : List Sample) : (sortByLenStable ss).Perm ss := by
  unfold sortByLenStable
  induction ss with
  | nil => exact List.Perm.refl _
  | cons s ss ih =>
    rw [List.foldr_cons]
    exact (insertByLenStable_perm s _).trans (ih.cons s)

/-! ### the two trivial branches of `andMergeA` -/

theorem andMergeA_left_empty (cx : Ctx) (t node : Nat) (l r : Sample) (q : Queue)
    (hl : l.isEmpty = true) : andMergeA cx t node l r q = (r, q) := by
  unfold andMergeA
  rw [if_pos hl]

theorem andMergeA_right_empty (cx : Ctx) (t node : Nat) (l r : Sample) (q : Queue)
    (hl : l.isEmpty = false) (hr : r.isEmpty = true) : andMergeA cx t node l r q = (l, q) := by
  unfold andMergeA
  rw [if_neg (by rw [hl]; exact Bool.false_ne_true), if_pos hr]

theorem andMergeA_both (cx : Ctx) (t node : Nat) (l r : Sample) (q : Queue)
    (hl : l.isEmpty = false) (hr : r.isEmpty = false) :
    andMergeA cx t node l r q =
      foldCoverSorted cx node
        (pickInter (crossLiterals l r t (zipSamplesA l r cx.n q).1) (zipSamplesA l r cx.n q).2).1
        (zipSamplesA l r cx.n q).1
        (pickInter (crossLiterals l r t (zipSamplesA l r cx.n q).1) (zipSamplesA l r cx.n q).2).2 := by
  unfold andMergeA
  rw [if_neg (by rw [hl]; exact Bool.false_ne_true), if_neg (by rw [hr]; exact Bool.false_ne_true)]

/-! ### congruence in the variable list -/

theorem litsOK_congr (V V' : List Nat) (hVV : ∀ v, v ∈ V ↔ v ∈ V') (Q : List Int → Prop) (s : Sample)
    (hs : LitsOK V Q s) : LitsOK V' Q s :=
  ⟨within_mono (fun v => (hVV v).mp) hs.within, fun l h0 hl hq => hs.all l h0 ((hVV _).mpr hl) hq⟩

theorem coversEq_congr (t : Nat) (V V' : List Nat) (hVV : ∀ v, v ∈ V' → v ∈ V) (Q : List Int → Prop)
    (s : Sample) (hs : CoversEq t V Q s) : CoversEq t V' Q s :=
  fun I h1 h2 h3 h4 => hs I h1 h2 (within_mono hVV h3) h4

end Ddnnf.TW
