/-
  The bottom-up pass of the fitness-guided variant: the result stored for every node is `ResAtA`.
-/
import DdnnfVerif.Proofs.TW.AndA
import DdnnfVerif.Proofs.TW.OrA
namespace Ddnnf.TW

variable (nodes : List NType) (n : Nat)

namespace NodesA

open Nodes

/-! ### moving a sample to another node -/

theorem sampleForA_node (t p p' : Nat) (V : List Nat) (s : Sample)
    (hiff : ∀ L, Within V L → (SatAt nodes p' L ↔ SatAt nodes p L))
    (hs : SampleForA nodes n t p' V s) : SampleForA nodes n t p V s := by
  refine ⟨⟨hs.inv.vars_nodup, hs.inv.vars_mem, ?_, hs.inv.complete⟩, ⟨hs.lits.within, ?_⟩, ?_,
    hs.nonempty⟩
  · intro c hc
    have := hs.inv.cfgs c hc
    exact ⟨this.ok, this.st, this.within, (hiff _ this.within).mp this.sat, this.noac, this.nonempty⟩
  · intro l hl0 hlV hsat
    have hW : Within V [l] := by
      intro x hx
      rw [List.mem_singleton] at hx
      subst hx
      exact ⟨hl0, hlV⟩
    exact hs.lits.all l hl0 hlV ((hiff [l] hW).mpr hsat)
  · intro I h1 h2 h3 h4
    exact hs.cover I h1 h2 h3 ((hiff I h3).mpr h4)

theorem coversEq_transfer (t : Nat) (V V' : List Nat) (Q : List Int → Prop) (s : Sample)
    (hVV : ∀ v, v ∈ V → v ∈ V') (hs : CoversEq t V' Q s) : CoversEq t V Q s := by
  intro I h1 h2 h3 h4
  exact hs I h1 h2 (fun l hl => ⟨(h3 l hl).1, hVV _ (h3 l hl).2⟩) h4

theorem litsOK_transfer (V V' : List Nat) (Q : List Int → Prop) (s : Sample)
    (hVV : ∀ v, v ∈ V' ↔ v ∈ V) (hs : LitsOK V' Q s) : LitsOK V Q s := by
  refine ⟨fun l hl => ⟨(hs.within l hl).1, (hVV _).mp (hs.within l hl).2⟩, ?_⟩
  intro l hl0 hlV hQ
  exact hs.all l hl0 ((hVV _).mpr hlV) hQ

theorem coversEq_of_covers (t : Nat) (ht : 1 ≤ t) (V : List Nat) (Q : List Int → Prop) (s : Sample)
    (hs : Covers t V Q s) : CoversEq t V Q s := by
  intro I h1 h2 h3 h4
  refine hs I ?_ (by omega) h2 h3 h4
  intro hnil
  rw [hnil] at h1
  simp at h1
  omega

/-- the part `void_iff` of `ResAtA` -/
def VoidAt (i : Nat) (r : Res) : Prop := isVoid r = true ↔ count nodes i = 0

end NodesA

open Nodes NodesA

/-! ### the five kinds of nodes -/

theorem partialSampleA_lit (h : WF nodes n) (hu : LitUnique nodes) (hpos : 0 < count nodes (rootIx nodes))
    (t : Nat) (ht : 1 ≤ t) (i : Nat) (hi : i < nodes.length) (l : Int) (hnd : nodes[i] = .lit l) :
    ResAtA nodes n t i (.sample (Sample.ofLiteral l n)) := by
  have hplain := partialSample_lit nodes n h hu hpos t i hi l hnd
  have hl0 : l ≠ 0 := h.litnz i hi l hnd
  have hvars : vars nodes i = [l.natAbs] := vars_lit nodes i hi l hnd
  refine ⟨hplain.void_iff, hplain.sample_nonempty, hplain.empty_vars, ?_⟩
  intro s hs hlive
  have hsp := hplain.sample s hs hlive
  injection hs with hs
  subst hs
  refine ⟨hsp.inv, ⟨?_, ?_⟩, coversEq_of_covers t ht _ _ _ hsp.cover, hsp.nonempty⟩
  · intro x hx
    have hx' : x ∈ [l] := hx
    rw [List.mem_singleton] at hx'
    subst hx'
    exact ⟨hl0, by rw [hvars]; exact List.mem_cons_self ..⟩
  · intro x hx0 hxV hsat
    show x ∈ [l]
    rw [List.mem_singleton]
    rw [hvars, List.mem_singleton] at hxV
    rw [satAt_lit nodes i hi l hnd, List.mem_singleton] at hsat
    rcases Int.natAbs_eq_natAbs_iff.mp hxV with h1 | h1
    · exact h1
    · exact (hsat (by omega)).elim

theorem partialSampleA_and (h : WF nodes n) (hu : LitUnique nodes) (hpos : 0 < count nodes (rootIx nodes))
    (t : Nat) (i : Nat) (hi : i < nodes.length) (cs : List Nat) (hnd : nodes[i] = .and cs)
    (get : Nat → Res) (hget : ∀ j, j < i → ResAtA nodes n t j (get j)) (q : Queue) :
    ResAtA nodes n t i (partialSampleA (ctxOf nodes n) t get i (.and cs) q).1 := by
  have hlt : ∀ c ∈ cs, c < i := fun c hc => h.topo i hi c (by rw [hnd]; exact hc)
  have hch : ∀ c ∈ cs, ResAtA nodes n t c (get c) := fun c hc => hget c (hlt c hc)
  by_cases hv : (cs.map get).any isVoid = true
  · have hr : (partialSampleA (ctxOf nodes n) t get i (.and cs) q).1 = .void := by
      simp only [partialSampleA, hv, if_true]
    rw [hr]
    refine ⟨?_, (fun s hs => by cases hs), (fun hs => by cases hs), (fun s hs => by cases hs)⟩
    have : count nodes i = 0 := by
      apply Classical.byContradiction
      intro hc
      rw [List.any_eq_true] at hv
      obtain ⟨r, hr, hvr⟩ := hv
      rw [List.mem_map] at hr
      obtain ⟨c, hc', rfl⟩ := hr
      exact (count_and_ne nodes h.topo i hi cs hnd).mp hc c hc' ((hch c hc').void_iff.mp hvr)
    simp [isVoid, this]
  · have hr : (partialSampleA (ctxOf nodes n) t get i (.and cs) q).1
        = Res.ofSample (andMergeAllA (ctxOf nodes n) t i ((cs.map get).filterMap resSample) q).1 := by
      simp only [partialSampleA, hv]
      rfl
    rw [hr]
    have hnv : ∀ c ∈ cs, isVoid (get c) = false := by
      intro c hc
      cases hb : isVoid (get c) with
      | false => rfl
      | true =>
        exact (hv (List.any_eq_true.mpr ⟨get c, List.mem_map.mpr ⟨c, hc, rfl⟩, hb⟩)).elim
    have hall : ∀ c ∈ cs, count nodes c ≠ 0 := by
      intro c hc hz
      have := (hch c hc).void_iff.mpr hz
      rw [hnv c hc] at this
      cases this
    have hss : ∀ s ∈ (cs.map get).filterMap resSample, s.all ≠ [] := by
      intro s hs
      obtain ⟨c, hc, hcs⟩ := (mem_samples get cs s).mp hs
      exact (hch c hc).sample_nonempty s hcs
    refine ⟨?_, ?_, ?_, ?_⟩
    · rw [isVoid_ofSample]
      have := (count_and_ne nodes h.topo i hi cs hnd).mpr hall
      simp [this]
    · intro s hs
      obtain ⟨rfl, h2⟩ := ofSample_eq_sample _ _ hs
      exact h2
    · intro hs
      have hnil := ofSample_eq_empty _ hs
      have hnone : ¬ ∃ s ∈ (cs.map get).filterMap resSample, s.all ≠ [] := fun hex =>
        andMergeAllA_nonempty (ctxOf nodes n) t i _ q hex hnil
      have hssnil := filterMap_nil_of_all_empty _ hnone hss
      rw [vars_and nodes h.topo i hi cs hnd]
      apply List.eq_nil_iff_forall_not_mem.mpr
      intro v hv
      rw [mem_varsOf] at hv
      obtain ⟨c, hc, hvc⟩ := hv
      have hgc : get c = .empty := by
        cases hg : get c with
        | empty => rfl
        | void => have := hnv c hc; rw [hg] at this; cases this
        | sample s =>
          have : s ∈ (cs.map get).filterMap resSample := (mem_samples get cs s).mpr ⟨c, hc, hg⟩
          rw [hssnil] at this
          cases this
      rw [(hch c hc).empty_vars hgc] at hvc
      cases hvc
    · intro s hs hlive
      obtain ⟨rfl, hne⟩ := ofSample_eq_sample _ _ hs
      have hrange : ∀ v ∈ vars nodes i, 1 ≤ v ∧ v ≤ n := fun v hv =>
        (mem_vars_root nodes n h v).mp (hlive.1 v hv)
      have hclive : ∀ c ∈ cs, Live nodes c := fun c hc =>
        live_and_child nodes n h i hi cs hnd hall hlive c hc
      have hnoac : ∀ L, Inter L → Within (vars nodes i) L → SatAt nodes i L → NoAC nodes n L :=
        fun L hI hW hS => noAC_of_live nodes n h hu hpos i hi hlive L hI hW hS
      -- the sample of a child, seen from the and-node
      have hlift : ∀ d s, (d, s) ∈ sampled get cs → SampleForA nodes n t i (vars nodes d) s := by
        intro d s hds
        obtain ⟨hd, hg⟩ := (mem_sampled get cs d s).mp hds
        have hsd : SampleAtA nodes n t d s := (hch d hd).sample s hg (hclive d hd)
        exact sampleForA_node nodes n t i d (vars nodes d) s
          (fun L hL => (satAt_and_child nodes n h i hi cs hnd hall d hd L hL).symm) hsd
      have hds : ((sampled get cs).map Prod.fst).Nodup := by
        apply sampled_fst_nodup get (vars nodes) cs (h.decomposable i hi cs hnd)
        intro c hc s hg
        have hsd : SampleAtA nodes n t c s := (hch c hc).sample s hg (hclive c hc)
        exact vars_ne_nil_of_sample _ s hsd.nonempty
          (fun c' hc' => ⟨(hsd.inv.cfgs c' hc').nonempty, (hsd.inv.cfgs c' hc').within⟩)
      have hspec := andMergeAllA_spec nodes n h hu t i hi cs hnd hall hrange hnoac
        ((sampled get cs).map Prod.fst) hds
        (by
          intro d hd
          rw [List.mem_map] at hd
          obtain ⟨⟨d', s'⟩, hds', rfl⟩ := hd
          exact ((mem_sampled get cs d' s').mp hds').1)
        ((sampled get cs).map Prod.snd) (by rw [List.length_map, List.length_map])
        (by
          intro j hj
          rw [List.getElem_map, List.getElem_map]
          exact hlift _ _ (List.getElem_mem _))
        q
      rw [sampled_snd] at hspec
      have hdne : (sampled get cs).map Prod.fst ≠ [] := by
        intro hnil
        have := (isEmpty_iff _).mp (hspec.1 hnil)
        exact hne this
      refine sampleForA_congr nodes n t i _ _ ?_ _ (hspec.2 hdne)
      intro v
      rw [vars_and nodes h.topo i hi cs hnd, mem_varsOf, mem_varsOf]
      constructor
      · rintro ⟨d, hd, hvd⟩
        rw [List.mem_map] at hd
        obtain ⟨⟨d', s'⟩, hds', rfl⟩ := hd
        exact ⟨d', ((mem_sampled get cs d' s').mp hds').1, hvd⟩
      · rintro ⟨c, hc, hvc⟩
        cases hg : get c with
        | empty => rw [(hch c hc).empty_vars hg] at hvc; cases hvc
        | void => have := hnv c hc; rw [hg] at this; cases this
        | sample s =>
          exact ⟨c, List.mem_map.mpr ⟨(c, s), (mem_sampled get cs c s).mpr ⟨hc, hg⟩, rfl⟩, hvc⟩

theorem partialSampleA_or (h : WF nodes n)
    (t : Nat) (i : Nat) (hi : i < nodes.length) (cs : List Nat) (hnd : nodes[i] = .or cs)
    (get : Nat → Res) (hget : ∀ j, j < i → ResAtA nodes n t j (get j)) (q : Queue) :
    ResAtA nodes n t i (partialSampleA (ctxOf nodes n) t get i (.or cs) q).1 := by
  have hlt : ∀ c ∈ cs, c < i := fun c hc => h.topo i hi c (by rw [hnd]; exact hc)
  have hch : ∀ c ∈ cs, ResAtA nodes n t c (get c) := fun c hc => hget c (hlt c hc)
  by_cases hv : (cs.map get).all isVoid = true
  · have hr : (partialSampleA (ctxOf nodes n) t get i (.or cs) q).1 = .void := by
      simp only [partialSampleA, hv, if_true]
    rw [hr]
    refine ⟨?_, (fun s hs => by cases hs), (fun hs => by cases hs), (fun s hs => by cases hs)⟩
    have : count nodes i = 0 := by
      apply Classical.byContradiction
      intro hc
      obtain ⟨c, hc', hcc⟩ := (count_or_ne nodes h.topo i hi cs hnd).mp hc
      rw [List.all_eq_true] at hv
      exact hcc ((hch c hc').void_iff.mp (hv _ (List.mem_map.mpr ⟨c, hc', rfl⟩)))
    simp [isVoid, this]
  · have hr : (partialSampleA (ctxOf nodes n) t get i (.or cs) q).1
        = Res.ofSample (foldMerge (orMergeA t) ((cs.map get).filterMap resSample) {} q).1 := by
      simp only [partialSampleA, hv]
      rfl
    rw [hr]
    have hex : ∃ c ∈ cs, isVoid (get c) = false := by
      apply Classical.byContradiction
      intro hno
      apply hv
      rw [List.all_eq_true]
      intro r hr
      rw [List.mem_map] at hr
      obtain ⟨c, hc, rfl⟩ := hr
      cases hb : isVoid (get c) with
      | true => rfl
      | false => exact (hno ⟨c, hc, hb⟩).elim
    have hcnt : ∀ c ∈ cs, isVoid (get c) = false ↔ count nodes c ≠ 0 := by
      intro c hc
      rw [Ne, ← (hch c hc).void_iff]
      cases isVoid (get c) <;> simp
    have hci : count nodes i ≠ 0 := by
      obtain ⟨c, hc, hb⟩ := hex
      exact (count_or_ne nodes h.topo i hi cs hnd).mpr ⟨c, hc, (hcnt c hc).mp hb⟩
    have hss : ∀ s ∈ (cs.map get).filterMap resSample, s.all ≠ [] := by
      intro s hs
      obtain ⟨c, hc, hcs⟩ := (mem_samples get cs s).mp hs
      exact (hch c hc).sample_nonempty s hcs
    -- a child that is `.empty` makes the variable list of the node empty
    have hempty : ∀ c ∈ cs, get c = .empty → vars nodes i = [] := by
      intro c hc hg
      have hcc : count nodes c ≠ 0 := (hcnt c hc).mp (by rw [hg]; rfl)
      apply List.eq_nil_iff_forall_not_mem.mpr
      intro v hvi
      have := (vars_or_child nodes n h i hi cs hnd c hc hcc v).mpr hvi
      rw [(hch c hc).empty_vars hg] at this
      cases this
    refine ⟨?_, ?_, ?_, ?_⟩
    · rw [isVoid_ofSample]
      simp [hci]
    · intro s hs
      obtain ⟨rfl, h2⟩ := ofSample_eq_sample _ _ hs
      exact h2
    · intro hs
      have hnil := ofSample_eq_empty _ hs
      have hnone : ¬ ∃ s ∈ (cs.map get).filterMap resSample, s.all ≠ [] := fun hex' =>
        orFoldA_nonempty t _ q hex' hnil
      have hssnil := filterMap_nil_of_all_empty _ hnone hss
      obtain ⟨c, hc, hb⟩ := hex
      apply hempty c hc
      cases hg : get c with
      | empty => rfl
      | void => rw [hg] at hb; cases hb
      | sample s =>
        have : s ∈ (cs.map get).filterMap resSample := (mem_samples get cs s).mpr ⟨c, hc, hg⟩
        rw [hssnil] at this
        cases this
    · intro s hs hlive
      obtain ⟨rfl, hne⟩ := ofSample_eq_sample _ _ hs
      have hrange : ∀ v ∈ vars nodes i, 1 ≤ v ∧ v ≤ n := fun v hv =>
        (mem_vars_root nodes n h v).mp (hlive.1 v hv)
      have hchild : ∀ d s, (d, s) ∈ sampled get cs →
          d ∈ cs ∧ count nodes d ≠ 0 ∧ SampleAtA nodes n t d s := by
        intro d s hds
        obtain ⟨hd, hg⟩ := (mem_sampled get cs d s).mp hds
        have hcc : count nodes d ≠ 0 := (hcnt d hd).mp (by rw [hg]; rfl)
        exact ⟨hd, hcc, (hch d hd).sample s hg (live_or_child nodes n h i hi cs hnd hlive d hd hcc)⟩
      have hspec := orFoldA_spec nodes n t i (vars nodes i) hrange
        ((sampled get cs).map Prod.fst) ((sampled get cs).map Prod.snd)
        (by rw [List.length_map, List.length_map])
        (by
          intro s hs
          rw [List.mem_map] at hs
          obtain ⟨⟨d, s'⟩, hds, rfl⟩ := hs
          obtain ⟨hd, hcc, hsd⟩ := hchild d s' hds
          refine ⟨?_, hsd.nonempty⟩
          exact sampleInv_transfer nodes n i d (vars nodes i) (vars nodes d) s'
            (vars_or_child nodes n h i hi cs hnd d hd hcc)
            (fun L hL => (satAt_or nodes h.topo i hi cs hnd L).mpr ⟨d, hd, hL⟩) hsd.inv)
        (by
          intro j hj
          rw [List.getElem_map, List.getElem_map]
          obtain ⟨hd, hcc, hsd⟩ := hchild _ _ (List.getElem_mem (l := sampled get cs)
            (by rw [List.length_map] at hj; exact hj))
          exact ⟨coversEq_transfer t _ _ _ _
              (fun v hv => (vars_or_child nodes n h i hi cs hnd _ hd hcc v).mpr hv) hsd.cover,
            litsOK_transfer _ _ _ _ (vars_or_child nodes n h i hi cs hnd _ hd hcc) hsd.lits⟩)
        q
      rw [sampled_snd] at hspec
      have hdne : (sampled get cs).map Prod.fst ≠ [] := by
        intro hnil
        have := (isEmpty_iff _).mp (hspec.1 hnil)
        exact hne this
      obtain ⟨h1, h2, h3, h4⟩ := hspec.2 hdne
      -- a non-empty partial model of the or-node is one of a child that has a sample
      have hsat : ∀ I, I ≠ [] → Within (vars nodes i) I → SatAt nodes i I →
          ∃ d ∈ (sampled get cs).map Prod.fst, SatAt nodes d I := by
        intro I hI1 hI4 hI5
        obtain ⟨c, hc, hsc⟩ := (satAt_or nodes h.topo i hi cs hnd I).mp hI5
        have hcc : count nodes c ≠ 0 := satAt_count nodes c I hsc
        refine ⟨c, ?_, hsc⟩
        cases hg : get c with
        | empty =>
          exfalso
          obtain ⟨l, hl⟩ := List.exists_mem_of_ne_nil _ hI1
          have := (hI4 l hl).2
          rw [hempty c hc hg] at this
          cases this
        | void =>
          have := (hcnt c hc).mpr hcc
          rw [hg] at this
          cases this
        | sample s =>
          exact List.mem_map.mpr ⟨(c, s), (mem_sampled get cs c s).mpr ⟨hc, hg⟩, rfl⟩
      refine ⟨h1, ⟨h3.within, ?_⟩, ?_, h2⟩
      · intro l hl0 hlV hS
        apply h3.all l hl0 hlV
        apply hsat [l] (List.cons_ne_nil _ _) ?_ hS
        intro x hx
        rw [List.mem_singleton] at hx
        subst hx
        exact ⟨hl0, hlV⟩
      · intro I hI1 hI2 hI3 hI4
        by_cases hnil : I = []
        · -- only possible for `t = 0`: the empty interaction is covered by any configuration
          subst hnil
          obtain ⟨c, hc⟩ := List.exists_mem_of_ne_nil _ h2
          show (foldMerge (orMergeA t) _ {} q).1.all.any (fun c => c.covers []) = true
          rw [List.any_eq_true]
          exact ⟨c, hc, by simp [Cfg.covers]⟩
        · exact h4 I hI1 hI2 hI3 (hsat I hnil hI3 hI4)

theorem partialSampleA_spec (h : WF nodes n) (hu : LitUnique nodes) (hpos : 0 < count nodes (rootIx nodes))
    (t : Nat) (ht : 1 ≤ t) (i : Nat) (hi : i < nodes.length) (get : Nat → Res)
    (hget : ∀ j, j < i → ResAtA nodes n t j (get j)) (q : Queue) :
    ResAtA nodes n t i (partialSampleA (ctxOf nodes n) t get i nodes[i] q).1 := by
  cases hnd : nodes[i] with
  | and cs => exact partialSampleA_and nodes n h hu hpos t i hi cs hnd get hget q
  | or cs => exact partialSampleA_or nodes n h t i hi cs hnd get hget q
  | lit l => exact partialSampleA_lit nodes n h hu hpos t ht i hi l hnd
  | tru =>
    show ResAtA nodes n t i .empty
    have hcnt : count nodes i = 1 := by rw [count_eq nodes i hi, hnd]; rfl
    refine ⟨?_, (fun s hs => by cases hs), fun _ => ?_, (fun s hs => by cases hs)⟩
    · rw [hcnt]; simp [isVoid]
    · rw [vars_eq nodes i hi, hnd]; rfl
  | fls =>
    show ResAtA nodes n t i .void
    have hcnt : count nodes i = 0 := by rw [count_eq nodes i hi, hnd]; rfl
    refine ⟨?_, (fun s hs => by cases hs), (fun hs => by cases hs), (fun s hs => by cases hs)⟩
    rw [hcnt]; simp [isVoid]

/-- the loop, started anywhere -/
theorem sampleNodesA_gen (h : WF nodes n) (hu : LitUnique nodes) (hpos : 0 < count nodes (rootIx nodes))
    (t : Nat) (ht : 1 ≤ t) :
    ∀ (rest : List NType) (k : Nat) (acc : Array Res) (q : Queue),
      rest = nodes.drop k → k ≤ nodes.length → acc.size = k →
      (∀ j, j < k → ResAtA nodes n t j (acc.getD j .void)) →
      (sampleNodesA (ctxOf nodes n) t rest acc q).1.size = nodes.length ∧
      ∀ i, i < nodes.length →
        ResAtA nodes n t i ((sampleNodesA (ctxOf nodes n) t rest acc q).1.getD i .void) := by
  intro rest
  induction rest with
  | nil =>
    intro k acc q hrest hk hsize hacc
    have hlen : nodes.length ≤ k := List.drop_eq_nil_iff.mp hrest.symm
    have hkk : k = nodes.length := by omega
    subst hkk
    exact ⟨hsize, hacc⟩
  | cons nd rest ih =>
    intro k acc q hrest hk hsize hacc
    have hklt : k < nodes.length := by
      apply Classical.byContradiction
      intro hge
      have : nodes.drop k = [] := List.drop_eq_nil_iff.mpr (by omega)
      rw [this] at hrest
      cases hrest
    rw [List.drop_eq_getElem_cons hklt] at hrest
    injection hrest with hnd hrest'
    have hstep : sampleNodesA (ctxOf nodes n) t (nd :: rest) acc q
        = sampleNodesA (ctxOf nodes n) t rest
            (acc.push (partialSampleA (ctxOf nodes n) t (fun j => acc.getD j .void) acc.size nd q).1)
            (partialSampleA (ctxOf nodes n) t (fun j => acc.getD j .void) acc.size nd q).2 := by
      simp only [sampleNodesA]
    rw [hstep]
    have hone := partialSampleA_spec nodes n h hu hpos t ht k hklt (fun j => acc.getD j .void) hacc q
    rw [← hnd, ← hsize] at hone
    apply ih (k + 1) _ _ hrest' (by omega) (by rw [Array.size_push, hsize])
    intro j hj
    by_cases hjk : j < k
    · have : (acc.push (partialSampleA (ctxOf nodes n) t (fun j => acc.getD j .void) acc.size nd q).1).getD j .void
          = acc.getD j .void := by
        exact getD_push_lt _ _ _ _ (by omega)
      rw [this]
      exact hacc j hjk
    · have hjk' : j = k := by omega
      have : (acc.push (partialSampleA (ctxOf nodes n) t (fun j => acc.getD j .void) acc.size nd q).1).getD j .void
          = (partialSampleA (ctxOf nodes n) t (fun j => acc.getD j .void) acc.size nd q).1 := by
        rw [hjk', ← hsize]; exact getD_push_eq _ _ _
      rw [this, hjk']
      rw [hsize] at hone ⊢
      exact hone

theorem sampleNodesA_spec (h : WF nodes n) (hu : LitUnique nodes) (hpos : 0 < count nodes (rootIx nodes))
    (t : Nat) (ht : 1 ≤ t) (q : Queue) :
    (sampleNodesA (ctxOf nodes n) t nodes #[] q).1.size = nodes.length ∧
    ∀ i, i < nodes.length →
      ResAtA nodes n t i ((sampleNodesA (ctxOf nodes n) t nodes #[] q).1.getD i .void) :=
  sampleNodesA_gen nodes n h hu hpos t ht nodes 0 #[] q rfl (Nat.zero_le _) rfl
    (fun j hj => by omega)

/-! ### the result of a node is `.void` exactly when the node has no model (needs only `Topo`) -/

namespace NodesA

theorem partialSampleA_void (ht : Topo nodes) (cx : Ctx) (t : Nat) (i : Nat) (hi : i < nodes.length)
    (get : Nat → Res) (hget : ∀ j, j < i → VoidAt nodes j (get j)) (q : Queue) :
    VoidAt nodes i (partialSampleA cx t get i nodes[i] q).1 := by
  unfold VoidAt
  cases hnd : nodes[i] with
  | and cs =>
    have hlt : ∀ c ∈ cs, c < i := fun c hc => ht i hi c (by rw [hnd]; exact hc)
    have hch : ∀ c ∈ cs, VoidAt nodes c (get c) := fun c hc => hget c (hlt c hc)
    by_cases hv : (cs.map get).any isVoid = true
    · have hr : (partialSampleA cx t get i (.and cs) q).1 = .void := by
        simp only [partialSampleA, hv, if_true]
      rw [hr]
      have : count nodes i = 0 := by
        apply Classical.byContradiction
        intro hc
        rw [List.any_eq_true] at hv
        obtain ⟨r, hr, hvr⟩ := hv
        rw [List.mem_map] at hr
        obtain ⟨c, hc', rfl⟩ := hr
        exact (Nodes.count_and_ne nodes ht i hi cs hnd).mp hc c hc' ((hch c hc').mp hvr)
      simp [isVoid, this]
    · have hr : (partialSampleA cx t get i (.and cs) q).1
          = Res.ofSample (andMergeAllA cx t i ((cs.map get).filterMap resSample) q).1 := by
        simp only [partialSampleA, hv]
        rfl
      rw [hr, Nodes.isVoid_ofSample]
      have hall : ∀ c ∈ cs, count nodes c ≠ 0 := by
        intro c hc hz
        have := (hch c hc).mpr hz
        exact hv (List.any_eq_true.mpr ⟨get c, List.mem_map.mpr ⟨c, hc, rfl⟩, this⟩)
      have := (Nodes.count_and_ne nodes ht i hi cs hnd).mpr hall
      simp [this]
  | or cs =>
    have hlt : ∀ c ∈ cs, c < i := fun c hc => ht i hi c (by rw [hnd]; exact hc)
    have hch : ∀ c ∈ cs, VoidAt nodes c (get c) := fun c hc => hget c (hlt c hc)
    by_cases hv : (cs.map get).all isVoid = true
    · have hr : (partialSampleA cx t get i (.or cs) q).1 = .void := by
        simp only [partialSampleA, hv, if_true]
      rw [hr]
      have : count nodes i = 0 := by
        apply Classical.byContradiction
        intro hc
        obtain ⟨c, hc', hcc⟩ := (Nodes.count_or_ne nodes ht i hi cs hnd).mp hc
        rw [List.all_eq_true] at hv
        exact hcc ((hch c hc').mp (hv _ (List.mem_map.mpr ⟨c, hc', rfl⟩)))
      simp [isVoid, this]
    · have hr : (partialSampleA cx t get i (.or cs) q).1
          = Res.ofSample (foldMerge (orMergeA t) ((cs.map get).filterMap resSample) {} q).1 := by
        simp only [partialSampleA, hv]
        rfl
      rw [hr, Nodes.isVoid_ofSample]
      have hex : ∃ c ∈ cs, count nodes c ≠ 0 := by
        apply Classical.byContradiction
        intro hno
        apply hv
        rw [List.all_eq_true]
        intro r hr
        rw [List.mem_map] at hr
        obtain ⟨c, hc, rfl⟩ := hr
        apply (hch c hc).mpr
        apply Classical.byContradiction
        intro hz
        exact hno ⟨c, hc, hz⟩
      have := (Nodes.count_or_ne nodes ht i hi cs hnd).mpr hex
      simp [this]
  | lit l =>
    have hcnt : count nodes i = 1 := by rw [Nodes.count_eq nodes i hi, hnd]; rfl
    show isVoid (.sample (Sample.ofLiteral l cx.n)) = true ↔ _
    rw [hcnt]; simp [isVoid]
  | tru =>
    have hcnt : count nodes i = 1 := by rw [Nodes.count_eq nodes i hi, hnd]; rfl
    show isVoid .empty = true ↔ _
    rw [hcnt]; simp [isVoid]
  | fls =>
    have hcnt : count nodes i = 0 := by rw [Nodes.count_eq nodes i hi, hnd]; rfl
    show isVoid .void = true ↔ _
    rw [hcnt]; simp [isVoid]

/-- the loop, started anywhere -/
theorem sampleNodesA_void_gen (ht : Topo nodes) (cx : Ctx) (t : Nat) :
    ∀ (rest : List NType) (k : Nat) (acc : Array Res) (q : Queue),
      rest = nodes.drop k → k ≤ nodes.length → acc.size = k →
      (∀ j, j < k → VoidAt nodes j (acc.getD j .void)) →
      ∀ i, i < nodes.length → VoidAt nodes i ((sampleNodesA cx t rest acc q).1.getD i .void) := by
  intro rest
  induction rest with
  | nil =>
    intro k acc q hrest hk hsize hacc
    have hlen : nodes.length ≤ k := List.drop_eq_nil_iff.mp hrest.symm
    have hkk : k = nodes.length := by omega
    subst hkk
    exact hacc
  | cons nd rest ih =>
    intro k acc q hrest hk hsize hacc
    have hklt : k < nodes.length := by
      apply Classical.byContradiction
      intro hge
      have : nodes.drop k = [] := List.drop_eq_nil_iff.mpr (by omega)
      rw [this] at hrest
      cases hrest
    rw [List.drop_eq_getElem_cons hklt] at hrest
    injection hrest with hnd hrest'
    have hstep : sampleNodesA cx t (nd :: rest) acc q
        = sampleNodesA cx t rest
            (acc.push (partialSampleA cx t (fun j => acc.getD j .void) acc.size nd q).1)
            (partialSampleA cx t (fun j => acc.getD j .void) acc.size nd q).2 := by
      simp only [sampleNodesA]
    rw [hstep]
    have hone := partialSampleA_void nodes ht cx t k hklt (fun j => acc.getD j .void) hacc q
    rw [← hnd, ← hsize] at hone
    apply ih (k + 1) _ _ hrest' (by omega) (by rw [Array.size_push, hsize])
    intro j hj
    by_cases hjk : j < k
    · have : (acc.push (partialSampleA cx t (fun j => acc.getD j .void) acc.size nd q).1).getD j .void
          = acc.getD j .void := by
        exact getD_push_lt _ _ _ _ (by omega)
      rw [this]
      exact hacc j hjk
    · have hjk' : j = k := by omega
      have : (acc.push (partialSampleA cx t (fun j => acc.getD j .void) acc.size nd q).1).getD j .void
          = (partialSampleA cx t (fun j => acc.getD j .void) acc.size nd q).1 := by
        rw [hjk', ← hsize]; exact getD_push_eq _ _ _
      rw [this, hjk']
      rw [hsize] at hone ⊢
      exact hone

end NodesA

/-- the void part alone needs no hypothesis about satisfiability -/
theorem sampleNodesA_void (ht : Topo nodes) (t : Nat) (q : Queue) (i : Nat) (hi : i < nodes.length) :
    isVoid ((sampleNodesA (ctxOf nodes n) t nodes #[] q).1.getD i .void) = true ↔ count nodes i = 0 :=
  NodesA.sampleNodesA_void_gen nodes ht (ctxOf nodes n) t nodes 0 #[] q rfl (Nat.zero_le _) rfl
    (fun j hj => by omega) i hi

end Ddnnf.TW
