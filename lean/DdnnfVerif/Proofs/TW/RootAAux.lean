/-
  Helper lemmas for `RootA.lean`: the completion step of the fitness-guided variant
  (`completeBest`, `completePartialsA`).
-/
import DdnnfVerif.Proofs.TW.DefsA
import DdnnfVerif.Proofs.Semantics
namespace Ddnnf.TW.RootA

variable (nodes : List NType) (n : Nat)

/-! ### a list of literals in slot order -/

theorem slots_facts (b : List Int) (hlen : b.length = n)
    (hslot : ∀ k, k < n → b.getD k 0 = ((k + 1 : Nat) : Int) ∨ b.getD k 0 = -((k + 1 : Nat) : Int)) :
    (∀ l ∈ b, l ≠ 0 ∧ l.natAbs ≤ n) ∧ (∀ l ∈ b, (-l) ∉ b) ∧
    (∀ v, 1 ≤ v → v ≤ n → ∃ l ∈ b, l.natAbs = v) := by
  have hget : ∀ k (hk : k < b.length), b[k].natAbs = k + 1 := by
    intro k hk
    have := hslot k (hlen ▸ hk)
    rw [List.getD_eq_getElem?_getD, List.getElem?_eq_getElem hk, Option.getD_some] at this
    omega
  refine ⟨fun l hl => ?_, fun l hl hneg => ?_, fun v hv1 hvn => ?_⟩
  · obtain ⟨k, hk, rfl⟩ := List.mem_iff_getElem.mp hl
    have := hget k hk
    refine ⟨fun h0 => ?_, by omega⟩
    rw [h0] at this
    simp at this
  · obtain ⟨k, hk, hkl⟩ := List.mem_iff_getElem.mp hl
    obtain ⟨k', hk', hkl'⟩ := List.mem_iff_getElem.mp hneg
    have h1 := hget k hk
    have h2 := hget k' hk'
    rw [hkl] at h1
    rw [hkl', Int.natAbs_neg] at h2
    have hkk : k = k' := by omega
    subst hkk
    rw [hkl] at hkl'
    omega
  · have hk : v - 1 < b.length := by omega
    refine ⟨b[v - 1], List.getElem_mem hk, ?_⟩
    rw [hget _ hk]
    omega

/-- what the executable test `isModelWith` says -/
theorem isModelWith_spec (b lits : List Int) (hb : isModelWith (ctxOf nodes n) b lits = true) :
    b.length = n ∧
    (∀ k, k < n → b.getD k 0 = ((k + 1 : Nat) : Int) ∨ b.getD k 0 = -((k + 1 : Nat) : Int)) ∧
    eval (fun v => b.contains (v : Int)) nodes (rootIx nodes) = true ∧
    ∀ l ∈ lits, l ∈ b := by
  unfold isModelWith at hb
  simp only [Bool.and_eq_true, beq_iff_eq, List.all_eq_true, List.mem_range, Bool.or_eq_true,
    List.contains_iff_mem] at hb
  obtain ⟨⟨⟨h1, h2⟩, h3⟩, h4⟩ := hb
  exact ⟨h1, h2, h3, h4⟩

/-- a slot-ordered list of literals that makes the root true is a partial model of the root -/
theorem satAt_of_eval (b : List Int) (hII : ∀ l ∈ b, (-l) ∉ b)
    (hev : eval (fun v => b.contains (v : Int)) nodes (rootIx nodes) = true) :
    SatAt nodes (rootIx nodes) b := by
  rw [eval_iff_models] at hev
  obtain ⟨m, hm, hsat⟩ := hev
  rw [satAt_iff_models]
  refine ⟨m, hm, fun x hx hneg => ?_⟩
  unfold satCfg at hsat
  rw [List.all_eq_true] at hsat
  have ht := hsat x hx
  unfold litTrue at ht
  by_cases hpos : x > 0
  · rw [if_pos hpos] at ht
    have e : ((x.natAbs : Nat) : Int) = x := by omega
    replace ht : b.contains ((x.natAbs : Nat) : Int) = true := ht
    rw [e, List.contains_iff_mem] at ht
    have := hII x ht
    exact this hneg
  · rw [if_neg hpos] at ht
    by_cases hneg' : x < 0
    · rw [if_pos hneg'] at ht
      have e : ((x.natAbs : Nat) : Int) = -x := by omega
      replace ht : (!b.contains ((x.natAbs : Nat) : Int)) = true := ht
      rw [e] at ht
      have : b.contains (-x) = true := List.contains_iff_mem.mpr hneg
      rw [this] at ht
      cases ht
    · rw [if_neg hneg'] at ht
      cases ht

/-! ### the completed configurations -/

/-- a configuration that decides every feature and is a partial model of the root -/
structure Good (c : Cfg) : Prop where
  ok : CfgOK n c
  all : ∀ k, k < n → c.lits.getD k 0 ≠ 0
  sat : SatAt nodes (rootIx nodes) c.decided

theorem good_final (h : WF nodes n) (c : Cfg) (hc : Good nodes n c) :
    Complete n c.lits.toList ∧ ∃ m ∈ models nodes (rootIx nodes), m.Perm c.lits.toList := by
  obtain ⟨e1, e2⟩ := Root.allDec_spec n c hc.ok hc.all
  rw [e1]
  exact ⟨e2, model_of_satAt_root nodes n h _ e2 hc.sat⟩

theorem good_ofLits (b lits : List Int) (hb : isModelWith (ctxOf nodes n) b lits = true) :
    Good nodes n (Cfg.ofLits b n) ∧ ∀ l ∈ lits, l ∈ (Cfg.ofLits b n).decided := by
  obtain ⟨h1, h2, h3, h4⟩ := isModelWith_spec nodes n b lits hb
  obtain ⟨s1, s2, s3⟩ := slots_facts n b h1 h2
  obtain ⟨o1, o2, _, _⟩ := cfgOK_ofLits n b s1 s2
  refine ⟨⟨o1, ?_, ?_⟩, fun l hl => (o2 l).mpr (h4 l hl)⟩
  · apply Root.allDec_of_mem n _ o1
    intro v hv1 hvn
    obtain ⟨l, hl, hlv⟩ := s3 v hv1 hvn
    exact ⟨l, (o2 l).mpr hl, hlv⟩
  · exact (satAt_congr nodes _ _ _ o2).mpr (satAt_of_eval nodes b s2 h3)

theorem completeBest_fst (cx : Ctx) (root : Nat) (c : Cfg) (q : Queue) :
    (completeBest cx root c q).1 = completeCfg cx root c ∨
    ∃ b, isModelWith cx b c.decided = true ∧ (completeBest cx root c q).1 = Cfg.ofLits b cx.n := by
  unfold completeBest
  split
  · rename_i b rest _
    by_cases hb : isModelWith cx b c.decided = true
    · rw [if_pos hb]
      exact Or.inr ⟨b, hb, rfl⟩
    · rw [if_neg hb]
      exact Or.inl rfl
  · exact Or.inl rfl

theorem completeBest_spec (h : WF nodes n) (hu : LitUnique nodes) (hpos : 0 < count nodes (rootIx nodes))
    (c : Cfg) (hc : CfgAt nodes n (rootIx nodes) (vars nodes (rootIx nodes)) c) (q : Queue) :
    Good nodes n (completeBest (ctxOf nodes n) (rootIx nodes) c q).1 ∧
    ∀ x ∈ c.decided, x ∈ (completeBest (ctxOf nodes n) (rootIx nodes) c q).1.decided := by
  rcases completeBest_fst (ctxOf nodes n) (rootIx nodes) c q with e | ⟨b, hb, e⟩
  · rw [e]
    obtain ⟨b1, b2, b3⟩ := Root.completeCfg_spec nodes n h hu hpos c hc
    exact ⟨⟨b1.ok, b3, b1.sat⟩, b2⟩
  · rw [e]
    exact good_ofLits nodes n b c.decided hb

theorem completePartialsA_cons (cx : Ctx) (root : Nat) (c : Cfg) (rest : List Cfg) (s : Sample) (q : Queue) :
    completePartialsA cx root (c :: rest) s q =
      completePartialsA cx root rest (s.add (completeBest cx root c q).1) (completeBest cx root c q).2 := rfl

theorem completePartialsA_spec (h : WF nodes n) (hu : LitUnique nodes) (hpos : 0 < count nodes (rootIx nodes)) :
    ∀ (cs : List Cfg) (s : Sample) (q : Queue),
      (∀ c ∈ cs, CfgAt nodes n (rootIx nodes) (vars nodes (rootIx nodes)) c) →
      (∀ c ∈ s.all, Good nodes n c) →
      (∀ c ∈ (completePartialsA (ctxOf nodes n) (rootIx nodes) cs s q).1.all, Good nodes n c) ∧
      ∀ J, InRangeL n J → (s.covers J = true ∨ ∃ c ∈ cs, c.covers J = true) →
        (completePartialsA (ctxOf nodes n) (rootIx nodes) cs s q).1.covers J = true := by
  intro cs
  induction cs with
  | nil =>
    intro s q _ hs
    refine ⟨hs, fun J _ hJ => ?_⟩
    rcases hJ with hJ | ⟨c, hc, _⟩
    · exact hJ
    · cases hc
  | cons c cs ih =>
    intro s q hcs hs
    rw [completePartialsA_cons]
    have hcc := hcs c (List.mem_cons_self ..)
    obtain ⟨g1, g2⟩ := completeBest_spec nodes n h hu hpos c hcc q
    generalize (completeBest (ctxOf nodes n) (rootIx nodes) c q).1 = c' at g1 g2
    generalize (completeBest (ctxOf nodes n) (rootIx nodes) c q).2 = q'
    have hs' : ∀ x ∈ (s.add c').all, Good nodes n x := by
      intro x hx
      rcases (mem_add_all s c' x).mp hx with hx | rfl
      · exact hs x hx
      · exact g1
    obtain ⟨a1, a2⟩ := ih (s.add c') q' (fun x hx => hcs x (List.mem_cons_of_mem _ hx)) hs'
    refine ⟨a1, fun J hJ hcov => a2 J hJ ?_⟩
    rcases hcov with hcov | ⟨x, hx, hxc⟩
    · obtain ⟨y, hy, hyc⟩ := Root.exists_of_covers s J hcov
      exact Or.inl (Root.covers_of_mem _ y ((mem_add_all s c' y).mpr (Or.inl hy)) J hyc)
    · rcases List.mem_cons.mp hx with rfl | hx
      · left
        apply Root.covers_of_mem _ c' ((mem_add_all s c' c').mpr (Or.inr rfl)) J
        rw [covers_iff n _ g1.ok J hJ]
        intro l hl h0
        exact g2 l ((covers_iff n x hcc.ok J hJ).mp hxc l hl h0)
      · exact Or.inr ⟨x, hx, hxc⟩

/-- the completion at the root, started as `sampleTWiseAQ` starts it -/
theorem completeRoot_spec (h : WF nodes n) (hu : LitUnique nodes) (hpos : 0 < count nodes (rootIx nodes))
    (s : Sample) (hs : SampleInv nodes n (rootIx nodes) (vars nodes (rootIx nodes)) s) (q : Queue) :
    (∀ c ∈ (completePartialsA (ctxOf nodes n) (rootIx nodes) s.partials.reverse
        { s with partials := [] } q).1.all, Good nodes n c) ∧
    ∀ J, InRangeL n J → s.covers J = true →
      (completePartialsA (ctxOf nodes n) (rootIx nodes) s.partials.reverse
        { s with partials := [] } q).1.covers J = true := by
  have hlenV : s.vars.length = n := by
    rw [Root.length_eq_of_nodup_same s.vars _ hs.vars_nodup (vars_nodup nodes n h _) hs.vars_mem]
    exact Root.vars_root_length nodes n h
  have hall0 : ({ s with partials := [] } : Sample).all = s.complete := by
    show s.complete ++ [] = s.complete
    rw [List.append_nil]
  obtain ⟨a1, a2⟩ := completePartialsA_spec nodes n h hu hpos s.partials.reverse { s with partials := [] } q
    (fun c hc => hs.cfgs c (List.mem_append_right _ (List.mem_reverse.mp hc)))
    (fun c hc => by
      rw [hall0] at hc
      have hcfg := hs.cfgs c (List.mem_append_left _ hc)
      have hlen : c.decided.length = n := by rw [← hcfg.ok.nd, hs.complete c hc, hlenV]
      exact ⟨hcfg.ok, Root.allDec_of_length n c hcfg.ok hlen, hcfg.sat⟩)
  refine ⟨a1, fun J hJ hcov => a2 J hJ ?_⟩
  obtain ⟨c, hc, hcc⟩ := Root.exists_of_covers s J hcov
  rcases List.mem_append.mp hc with h1 | h1
  · left
    apply Root.covers_of_mem _ c _ J hcc
    rw [hall0]
    exact h1
  · exact Or.inr ⟨c, List.mem_reverse.mpr h1, hcc⟩

end Ddnnf.TW.RootA
