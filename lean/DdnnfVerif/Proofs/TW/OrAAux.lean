/-
  Helpers for `OrA.lean`: interleavings (`mergeLR`, `pickLR`, `sortedCfgs`) and the candidate loop of
  `AttributeSimilarityMerger::merge`.
-/
import DdnnfVerif.Proofs.TW.DefsA
namespace Ddnnf.TW

variable (nodes : List NType) (n : Nat)

/-! ### interleavings -/

theorem orA_mergeLR_mem {α} (bs : List Bool) (l r : List α) :
    ∀ m, mergeLR bs l r = some m → ∀ x, x ∈ m ↔ x ∈ l ∨ x ∈ r := by
  fun_induction mergeLR bs l r with
  | case1 => intro m h x; cases h; simp
  | case2 => intro m h; cases h
  | case3 => intro m h x; cases h; simp
  | case4 => intro m h; cases h
  | case5 => intro m h; cases h
  | case6 bs x l y r ih =>
    intro m h z
    rw [Option.map_eq_some_iff] at h
    obtain ⟨m', hm', rfl⟩ := h
    have := ih m' hm' z
    simp only [List.mem_cons] at this ⊢
    rw [this]
    constructor
    · rintro (h | h | h | h)
      · exact Or.inl (Or.inl h)
      · exact Or.inl (Or.inr h)
      · exact Or.inr (Or.inl h)
      · exact Or.inr (Or.inr h)
    · rintro ((h | h) | h | h)
      · exact Or.inl h
      · exact Or.inr (Or.inl h)
      · exact Or.inr (Or.inr (Or.inl h))
      · exact Or.inr (Or.inr (Or.inr h))
  | case7 b bs x l y r hb ih =>
    intro m h z
    rw [Option.map_eq_some_iff] at h
    obtain ⟨m', hm', rfl⟩ := h
    have := ih m' hm' z
    simp only [List.mem_cons] at this ⊢
    rw [this]
    constructor
    · rintro (h | (h | h) | h)
      · exact Or.inr (Or.inl h)
      · exact Or.inl (Or.inl h)
      · exact Or.inl (Or.inr h)
      · exact Or.inr (Or.inr h)
    · rintro ((h | h) | h | h)
      · exact Or.inr (Or.inl (Or.inl h))
      · exact Or.inr (Or.inl (Or.inr h))
      · exact Or.inl h
      · exact Or.inr (Or.inr h)

theorem orA_pickLR_mem {α} (l r : List α) (q : Queue) (x : α) :
    x ∈ (pickLR l r q).1 ↔ x ∈ l ∨ x ∈ r := by
  unfold pickLR
  split
  · split
    · rename_i m hm
      exact orA_mergeLR_mem _ l r m hm x
    · exact List.mem_append
  · exact List.mem_append

theorem orA_sortedCfgs_mem (s : Sample) (q : Queue) (x : Cfg) :
    x ∈ (sortedCfgs s q).1 ↔ x ∈ s.all := by
  unfold sortedCfgs Sample.all
  rw [orA_pickLR_mem, List.mem_append]
  exact Or.comm

/-! ### the candidate loop -/

/-- one step of the loop of `AttributeSimilarityMerger::merge` -/
def orStepA (t : Nat) (s : Sample) (c : Cfg) : Sample := if s.tWiseCovered c t then s else s.add c

/-- every interaction of exactly `t` literals of the configuration `c` is covered by `s` -/
def DoneEq (t : Nat) (V : List Nat) (s : Sample) (c : Cfg) : Prop :=
  ∀ I, I.length = t → Inter I → Within V I → c.covers I = true → s.covers I = true

theorem doneEq_mono (t : Nat) (V : List Nat) (s s' : Sample) (c : Cfg)
    (hss : ∀ x ∈ s.all, x ∈ s'.all) (h : DoneEq t V s c) : DoneEq t V s' c := by
  intro I h2 h3 h4 h5
  obtain ⟨x, hx, hxc⟩ := exists_of_covers s I (h I h2 h3 h4 h5)
  exact covers_of_mem s' x (hss x hx) I hxc

theorem doneEq_of_mem (t : Nat) (V : List Nat) (s : Sample) (c : Cfg) (hc : c ∈ s.all) :
    DoneEq t V s c :=
  fun I _ _ _ h => covers_of_mem s c hc I h

theorem add_literals (s : Sample) (c : Cfg) : (s.add c).literals = s.literals := by
  unfold Sample.add Sample.addComplete Sample.addPartial
  split <;> rfl

/-- a candidate that is skipped has all its interactions of `t` literals covered -/
theorem tWiseCovered_doneEq (t : Nat) (p : Nat) (V : List Nat) (hV : ∀ v ∈ V, 1 ≤ v ∧ v ≤ n)
    (s : Sample) (hs : SampleInv nodes n p V s) (c : Cfg) (hc : CfgAt nodes n p V c)
    (h : s.tWiseCovered c t = true) : DoneEq t V s c := by
  intro I hlen hI hw hcov
  have hIr : InRangeL n I := fun l hl _ => (hV _ (hw l hl).2).2
  have hsub : ∀ l ∈ I, l ∈ c.decided := by
    intro l hl
    exact (covers_iff n c hc.ok I hIr).mp hcov l hl (hI.1 l hl)
  unfold Sample.tWiseCovered at h
  have hnd : I.Nodup := List.Pairwise.of_map Int.natAbs (fun a b hab heq => hab (by rw [heq])) hI.2
  have hle : I.length ≤ c.decided.length := List.Nodup.length_le_of_subset hnd hsub
  obtain ⟨J, hJ, hIJ⟩ := exists_tIter_superset c.decided I hnd hsub (min t c.decided.length)
    (Nat.le_min.mpr ⟨Nat.le_of_eq hlen, hle⟩) (Nat.min_le_right _ _)
  have hJc : s.covers J = true := List.all_eq_true.mp h J hJ
  have hJr : InRangeL n J := by
    intro l hl _
    have := mem_of_mem_tIter hJ l hl
    exact (decided_range n c hc.ok l this).2
  exact covers_subset n s (fun x hx => (hs.cfgs x hx).ok) J I hJr hIr (fun l hl _ => hIJ l hl) hJc

theorem orStepA_mem (t : Nat) (s : Sample) (c : Cfg) : ∀ x ∈ s.all, x ∈ (orStepA t s c).all := by
  intro x hx
  unfold orStepA
  split
  · exact hx
  · exact (mem_add_all s c x).mpr (Or.inl hx)

theorem orStepA_literals (t : Nat) (s : Sample) (c : Cfg) : (orStepA t s c).literals = s.literals := by
  unfold orStepA
  split
  · rfl
  · exact add_literals s c

/-- after its turn a candidate is never without a configuration in the sample -/
theorem orStepA_nonempty (t : Nat) (s : Sample) (c : Cfg) : (orStepA t s c).all ≠ [] := by
  unfold orStepA
  split
  · rename_i h
    unfold Sample.tWiseCovered at h
    have hne := tIter_ne_nil c.decided (min t c.decided.length) (Nat.min_le_right _ _)
    obtain ⟨J, hJ⟩ := List.exists_mem_of_ne_nil _ hne
    obtain ⟨x, hx, _⟩ := exists_of_covers s J (List.all_eq_true.mp h J hJ)
    exact List.ne_nil_of_mem hx
  · exact List.ne_nil_of_mem ((mem_add_all s c c).mpr (Or.inr rfl))

theorem orStepA_spec (t : Nat) (p : Nat) (V : List Nat) (hV : ∀ v ∈ V, 1 ≤ v ∧ v ≤ n)
    (s : Sample) (hs : SampleInv nodes n p V s) (c : Cfg) (hc : CfgAt nodes n p V c) :
    SampleInv nodes n p V (orStepA t s c) ∧ DoneEq t V (orStepA t s c) c := by
  unfold orStepA
  split
  · rename_i h
    exact ⟨hs, tWiseCovered_doneEq nodes n t p V hV s hs c hc h⟩
  · exact ⟨sampleInv_add nodes n p V s c hs hc,
      doneEq_of_mem t V _ c ((mem_add_all s c c).mpr (Or.inr rfl))⟩

theorem orLoopA_mem (t : Nat) : ∀ (cands : List Cfg) (s : Sample),
    ∀ x ∈ s.all, x ∈ (cands.foldl (orStepA t) s).all := by
  intro cands
  induction cands with
  | nil => intro s x hx; exact hx
  | cons c cands ih =>
    intro s x hx
    rw [List.foldl_cons]
    exact ih _ x (orStepA_mem t s c x hx)

theorem orLoopA_literals (t : Nat) : ∀ (cands : List Cfg) (s : Sample),
    (cands.foldl (orStepA t) s).literals = s.literals := by
  intro cands
  induction cands with
  | nil => intro s; rfl
  | cons c cands ih =>
    intro s
    rw [List.foldl_cons, ih, orStepA_literals]

theorem orLoopA_nonempty (t : Nat) (cands : List Cfg) (s : Sample) (h : cands ≠ []) :
    (cands.foldl (orStepA t) s).all ≠ [] := by
  cases cands with
  | nil => exact absurd rfl h
  | cons c cands =>
    rw [List.foldl_cons]
    obtain ⟨x, hx⟩ := List.exists_mem_of_ne_nil _ (orStepA_nonempty t s c)
    exact List.ne_nil_of_mem (orLoopA_mem t cands _ x hx)

theorem orLoopA_spec (t : Nat) (p : Nat) (V : List Nat) (hV : ∀ v ∈ V, 1 ≤ v ∧ v ≤ n) :
    ∀ (cands : List Cfg) (s : Sample), SampleInv nodes n p V s →
      (∀ c ∈ cands, CfgAt nodes n p V c) →
      SampleInv nodes n p V (cands.foldl (orStepA t) s) ∧
      (∀ c ∈ cands, DoneEq t V (cands.foldl (orStepA t) s) c) := by
  intro cands
  induction cands with
  | nil => intro s hs _; exact ⟨hs, fun c hc => absurd hc List.not_mem_nil⟩
  | cons c cands ih =>
    intro s hs hc
    rw [List.foldl_cons]
    obtain ⟨s1, s2⟩ := orStepA_spec nodes n t p V hV s hs c (hc c List.mem_cons_self)
    obtain ⟨r1, r2⟩ := ih (orStepA t s c) s1 (fun x hx => hc x (List.mem_cons_of_mem _ hx))
    refine ⟨r1, ?_⟩
    intro x hx
    rcases List.mem_cons.mp hx with h | h
    · subst h
      exact doneEq_mono t V _ _ x (orLoopA_mem t cands _) s2
    · exact r2 x h

/-! ### `orMergeA` -/

/-- the candidates of `orMergeA`: an interleaving of all configurations of both operands -/
def orCandsA (l r : Sample) (q : Queue) : List Cfg :=
  (pickLR (sortedCfgs l q).1 (sortedCfgs r (sortedCfgs l q).2).1 (sortedCfgs r (sortedCfgs l q).2).2).1

theorem orCandsA_mem (l r : Sample) (q : Queue) (x : Cfg) :
    x ∈ orCandsA l r q ↔ x ∈ l.all ∨ x ∈ r.all := by
  unfold orCandsA
  rw [orA_pickLR_mem, orA_sortedCfgs_mem, orA_sortedCfgs_mem]

/-- the shape of `orMergeA` on two non-empty operands -/
theorem orMergeA_eq (t : Nat) (l r : Sample) (q : Queue) (hne1 : l.all ≠ []) (hne2 : r.all ≠ []) :
    (orMergeA t l r q).1 = (orCandsA l r q).foldl (orStepA t) (Sample.fromSamples [l, r]) := by
  have e1 : l.isEmpty = false := by
    rw [Bool.eq_false_iff]; exact fun h => hne1 ((isEmpty_iff l).mp h)
  have e2 : r.isEmpty = false := by
    rw [Bool.eq_false_iff]; exact fun h => hne2 ((isEmpty_iff r).mp h)
  unfold orMergeA
  simp only [e1, e2, Bool.false_eq_true, if_false]
  rfl

theorem orMergeA_empty_left (t : Nat) (s : Sample) (q : Queue) : orMergeA t {} s q = (s, q) := by
  unfold orMergeA
  rfl

theorem orMergeA_nonempty (t : Nat) (l r : Sample) (q : Queue) (h : l.all ≠ [] ∨ r.all ≠ []) :
    (orMergeA t l r q).1.all ≠ [] := by
  by_cases hl : l.all = []
  · have : l.isEmpty = true := (isEmpty_iff l).mpr hl
    unfold orMergeA
    rw [if_pos this]
    rcases h with h | h
    · exact absurd hl h
    · exact h
  · by_cases hr : r.all = []
    · have e1 : l.isEmpty = false := by
        rw [Bool.eq_false_iff]; exact fun h => hl ((isEmpty_iff l).mp h)
      have : r.isEmpty = true := (isEmpty_iff r).mpr hr
      unfold orMergeA
      simp only [e1, this, Bool.false_eq_true, if_false, if_true]
      exact hl
    · rw [orMergeA_eq t l r q hl hr]
      apply orLoopA_nonempty
      intro hnil
      obtain ⟨x, hx⟩ := List.exists_mem_of_ne_nil _ hl
      have := (orCandsA_mem l r q x).mpr (Or.inl hx)
      rw [hnil] at this
      exact absurd this List.not_mem_nil

theorem fromSamples_literals_mem (l r : Sample) (x : Int) :
    x ∈ (Sample.fromSamples [l, r]).literals ↔ x ∈ l.literals ∨ x ∈ r.literals := by
  show x ∈ setOfInt _ ↔ _
  rw [mem_setOfInt]
  simp only [List.flatMap_cons, List.flatMap_nil, List.append_nil, List.mem_append]

end Ddnnf.TW
