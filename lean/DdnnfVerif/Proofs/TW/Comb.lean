/-
  Combinatorics of the t-wise construction: the interaction iterator, the oracle picks, the small
  list utilities.
-/
import DdnnfVerif.Proofs.TW.Defs
namespace Ddnnf.TW

theorem mem_combos {α} (k : Nat) (xs J : List α) : J ∈ combos k xs ↔ J.Sublist xs ∧ J.length = k := by
  induction xs generalizing k J with
  | nil =>
    cases k with
    | zero => simp [combos]
    | succ k => simp [combos]; intro h; simp [h]
  | cons x xs ih =>
    cases k with
    | zero =>
      simp only [combos, List.mem_singleton]
      constructor
      · intro h; subst h; simp
      · intro h; exact List.eq_nil_of_length_eq_zero h.2
    | succ k =>
      simp only [combos, List.mem_append, List.mem_map, ih]
      constructor
      · rintro (⟨a, ⟨h1, h2⟩, rfl⟩ | ⟨h1, h2⟩)
        · exact ⟨h1.cons_cons x, by simp [h2]⟩
        · exact ⟨h1.cons x, h2⟩
      · rintro ⟨h1, h2⟩
        cases h1 with
        | cons _ h => exact Or.inr ⟨h, h2⟩
        | cons_cons _ h =>
          rename_i l
          exact Or.inl ⟨l, ⟨h, by simpa using h2⟩, rfl⟩

theorem mem_tIter (L J : List Int) (k : Nat) : J ∈ tIter L k ↔ J.reverse.Sublist L ∧ J.length = k := by
  simp only [tIter, List.mem_map, mem_combos]
  constructor
  · rintro ⟨a, ⟨h1, h2⟩, rfl⟩
    simp [h1, h2]
  · rintro ⟨h1, h2⟩
    exact ⟨J.reverse, ⟨h1, by simpa using h2⟩, by simp⟩

theorem mem_of_mem_tIter {L J : List Int} {k : Nat} (h : J ∈ tIter L k) : ∀ x ∈ J, x ∈ L := by
  intro x hx
  have := ((mem_tIter L J k).1 h).1
  exact this.subset (by simpa using hx)

theorem nodup_of_mem_tIter {L J : List Int} {k : Nat} (hL : L.Nodup) (h : J ∈ tIter L k) : J.Nodup := by
  have := ((mem_tIter L J k).1 h).1
  have h2 : J.reverse.Nodup := hL.sublist this
  exact (List.pairwise_reverse.1 h2).imp (fun h => Ne.symm h)

theorem exists_sublist_superset {α} [DecidableEq α] (L : List α) : ∀ (I : List α), I.Nodup →
    (∀ x ∈ I, x ∈ L) → ∀ k, I.length ≤ k → k ≤ L.length →
    ∃ J : List α, J.Sublist L ∧ J.length = k ∧ ∀ x ∈ I, x ∈ J := by
  induction L with
  | nil =>
    intro I hI hsub k hk1 hk2
    refine ⟨[], List.Sublist.refl _, by simp at hk2; simp [hk2], ?_⟩
    intro x hx; exact absurd (hsub x hx) (by simp)
  | cons a L ih =>
    intro I hI hsub k hk1 hk2
    by_cases ha : a ∈ I
    · have hlen : (I.erase a).length = I.length - 1 := List.length_erase_of_mem ha
      have hpos : 0 < I.length := List.length_pos_of_mem ha
      obtain ⟨J, hJ1, hJ2, hJ3⟩ := ih (I.erase a) (hI.erase a)
        (by
          intro x hx
          have := (hI.mem_erase_iff).1 hx
          have h2 := hsub x this.2
          simp at h2
          rcases h2 with h2 | h2
          · exact absurd h2 this.1
          · exact h2) (k - 1) (by omega) (by simp at hk2; omega)
      refine ⟨a :: J, hJ1.cons_cons a, by simp [hJ2]; omega, ?_⟩
      intro x hx
      by_cases hxa : x = a
      · simp [hxa]
      · exact List.mem_cons_of_mem _ (hJ3 x ((hI.mem_erase_iff).2 ⟨hxa, hx⟩))
    · have hsub' : ∀ x ∈ I, x ∈ L := by
        intro x hx
        have h2 := hsub x hx
        simp at h2
        rcases h2 with h2 | h2
        · exact absurd (h2 ▸ hx) ha
        · exact h2
      by_cases hk : k ≤ L.length
      · obtain ⟨J, hJ1, hJ2, hJ3⟩ := ih I hI hsub' k hk1 hk
        exact ⟨J, hJ1.cons a, hJ2, hJ3⟩
      · refine ⟨a :: L, List.Sublist.refl _, by simp at hk2 ⊢; omega, ?_⟩
        intro x hx; exact List.mem_cons_of_mem _ (hsub' x hx)

theorem exists_sublist_same {α} [DecidableEq α] (L : List α) : ∀ (I : List α), I.Nodup →
    (∀ x ∈ I, x ∈ L) →
    ∃ J : List α, J.Sublist L ∧ J.length = I.length ∧ ∀ x, x ∈ J ↔ x ∈ I := by
  induction L with
  | nil =>
    intro I hI hsub
    have : I = [] := by
      cases I with
      | nil => rfl
      | cons b I => exact absurd (hsub b (by simp)) (by simp)
    subst this
    exact ⟨[], List.Sublist.refl _, rfl, by simp⟩
  | cons a L ih =>
    intro I hI hsub
    by_cases ha : a ∈ I
    · have hlen : (I.erase a).length = I.length - 1 := List.length_erase_of_mem ha
      have hpos : 0 < I.length := List.length_pos_of_mem ha
      obtain ⟨J, hJ1, hJ2, hJ3⟩ := ih (I.erase a) (hI.erase a)
        (by
          intro x hx
          have := (hI.mem_erase_iff).1 hx
          have h2 := hsub x this.2
          simp at h2
          rcases h2 with h2 | h2
          · exact absurd h2 this.1
          · exact h2)
      refine ⟨a :: J, hJ1.cons_cons a, by simp [hJ2]; omega, ?_⟩
      intro x
      simp only [List.mem_cons, hJ3, hI.mem_erase_iff]
      by_cases hxa : x = a
      · simp [hxa, ha]
      · simp [hxa]
    · have hsub' : ∀ x ∈ I, x ∈ L := by
        intro x hx
        have h2 := hsub x hx
        simp at h2
        rcases h2 with h2 | h2
        · exact absurd (h2 ▸ hx) ha
        · exact h2
      obtain ⟨J, hJ1, hJ2, hJ3⟩ := ih I hI hsub'
      exact ⟨J, hJ1.cons a, hJ2, hJ3⟩

/-- every set of at most `k` members of `L` is inside one of the enumerated interactions -/
theorem exists_tIter_superset (L : List Int) (I : List Int) (hI : I.Nodup)
    (hsub : ∀ x ∈ I, x ∈ L) (k : Nat) (hk1 : I.length ≤ k) (hk2 : k ≤ L.length) :
    ∃ J ∈ tIter L k, ∀ x ∈ I, x ∈ J := by
  obtain ⟨J, h1, h2, h3⟩ := exists_sublist_superset L I hI hsub k hk1 hk2
  refine ⟨J.reverse, (mem_tIter _ _ _).2 ⟨by simpa using h1, by simpa using h2⟩, ?_⟩
  intro x hx; simpa using h3 x hx

/-- … and when `|I| = k` the enumerated interaction has exactly the members of `I` -/
theorem exists_tIter_same (L : List Int) (I : List Int) (hI : I.Nodup)
    (hsub : ∀ x ∈ I, x ∈ L) :
    ∃ J ∈ tIter L I.length, (∀ x, x ∈ J ↔ x ∈ I) := by
  obtain ⟨J, h1, h2, h3⟩ := exists_sublist_same L I hI hsub
  refine ⟨J.reverse, (mem_tIter _ _ _).2 ⟨by simpa using h1, by simpa using h2⟩, ?_⟩
  intro x; simpa using h3 x

theorem mem_insertInt (x y : Int) (l : List Int) : x ∈ insertInt y l ↔ x = y ∨ x ∈ l := by
  induction l with
  | nil => simp [insertInt]
  | cons z zs ih =>
    simp only [insertInt]
    split
    · simp
    · split
      · rename_i h1 h2
        have : y = z := by simpa using h2
        subst this; simp
      · simp only [List.mem_cons, ih]
        constructor
        · rintro (h | h | h) <;> simp [h]
        · rintro (h | h | h) <;> simp [h]

theorem insertInt_sorted (y : Int) (l : List Int) (h : l.Pairwise (· < ·)) :
    (insertInt y l).Pairwise (· < ·) := by
  induction l with
  | nil => simp [insertInt]
  | cons z zs ih =>
    simp only [insertInt]
    have h' := List.pairwise_cons.1 h
    split
    · rename_i h1
      refine List.pairwise_cons.2 ⟨?_, h⟩
      intro a ha
      simp at ha
      rcases ha with ha | ha
      · omega
      · have := h'.1 a ha; omega
    · split
      · exact h
      · rename_i h1 h2
        have h2' : ¬ y = z := by simpa using h2
        refine List.pairwise_cons.2 ⟨?_, ih h'.2⟩
        intro a ha
        rcases (mem_insertInt a y zs).1 ha with ha | ha
        · omega
        · exact h'.1 a ha

theorem mem_setOfInt (xs : List Int) (x : Int) : x ∈ setOfInt xs ↔ x ∈ xs := by
  induction xs with
  | nil => simp [setOfInt]
  | cons y ys ih =>
    have : setOfInt (y :: ys) = insertInt y (setOfInt ys) := rfl
    rw [this, mem_insertInt, ih]; simp

theorem setOfInt_sorted (xs : List Int) : (setOfInt xs).Pairwise (· < ·) := by
  induction xs with
  | nil => simp [setOfInt]
  | cons y ys ih => exact insertInt_sorted y _ ih

theorem setOfInt_nodup (xs : List Int) : (setOfInt xs).Nodup :=
  (setOfInt_sorted xs).imp (fun h => by omega)

theorem mem_insertNat (x y : Nat) (l : List Nat) : x ∈ insertNat y l ↔ x = y ∨ x ∈ l := by
  induction l with
  | nil => simp [insertNat]
  | cons z zs ih =>
    simp only [insertNat]
    split
    · simp
    · split
      · rename_i h1 h2
        have : y = z := by simpa using h2
        subst this; simp
      · simp only [List.mem_cons, ih]
        constructor
        · rintro (h | h | h) <;> simp [h]
        · rintro (h | h | h) <;> simp [h]

theorem insertNat_sorted (y : Nat) (l : List Nat) (h : l.Pairwise (· < ·)) :
    (insertNat y l).Pairwise (· < ·) := by
  induction l with
  | nil => simp [insertNat]
  | cons z zs ih =>
    simp only [insertNat]
    have h' := List.pairwise_cons.1 h
    split
    · rename_i h1
      refine List.pairwise_cons.2 ⟨?_, h⟩
      intro a ha
      simp at ha
      rcases ha with ha | ha
      · omega
      · have := h'.1 a ha; omega
    · split
      · exact h
      · rename_i h1 h2
        have h2' : ¬ y = z := by simpa using h2
        refine List.pairwise_cons.2 ⟨?_, ih h'.2⟩
        intro a ha
        rcases (mem_insertNat a y zs).1 ha with ha | ha
        · omega
        · exact h'.1 a ha

theorem mem_setOfNat (xs : List Nat) (x : Nat) : x ∈ setOfNat xs ↔ x ∈ xs := by
  induction xs with
  | nil => simp [setOfNat]
  | cons y ys ih =>
    have : setOfNat (y :: ys) = insertNat y (setOfNat ys) := rfl
    rw [this, mem_insertNat, ih]; simp

theorem setOfNat_sorted (xs : List Nat) : (setOfNat xs).Pairwise (· < ·) := by
  induction xs with
  | nil => simp [setOfNat]
  | cons y ys ih => exact insertNat_sorted y _ ih

theorem setOfNat_nodup (xs : List Nat) : (setOfNat xs).Nodup :=
  (setOfNat_sorted xs).imp (fun h => by omega)

theorem sameMembers_iff {α} [BEq α] [LawfulBEq α] (a b : List α) (h : sameMembers a b = true) :
    ∀ x, x ∈ a ↔ x ∈ b := by
  simp only [sameMembers, Bool.and_eq_true, List.all_eq_true, List.contains_iff_mem] at h
  intro x; exact ⟨h.1 x, h.2 x⟩

theorem pickInter_mem (gen : List (List Int)) (q : Queue) (I : List Int) :
    I ∈ (pickInter gen q).1 ↔ I ∈ gen := by
  unfold pickInter
  split
  · split
    · rename_i h; exact sameMembers_iff _ _ h I
    · exact Iff.rfl
  · exact Iff.rfl

theorem pickShuf_mem (gen : List Int) (q : Queue) (x : Int) : x ∈ (pickShuf gen q).1 ↔ x ∈ gen := by
  unfold pickShuf
  split
  · split
    · rename_i h; exact sameMembers_iff _ _ h x
    · exact Iff.rfl
  · exact Iff.rfl

theorem pickDrop_length (len : Nat) (q : Queue) : (pickDrop len q).1.length = len := by
  unfold pickDrop
  split
  · split
    · rename_i h; simpa using h
    · simp
  · simp

theorem perm_range_of_all (n : Nat) : ∀ (L : List Nat), L.length = n → (∀ i, i < n → i ∈ L) →
    L.Perm (List.range n) := by
  induction n with
  | zero => intro L h _; simp at h; subst h; simp
  | succ n ih =>
    intro L hl hall
    have hn : n ∈ L := hall n (by omega)
    have h1 : L.Perm (n :: L.erase n) := List.perm_cons_erase hn
    have h2 : (L.erase n).Perm (List.range n) := by
      apply ih
      · rw [List.length_erase_of_mem hn]; omega
      · intro i hi
        exact (List.mem_erase_of_ne (by omega)).2 (hall i (by omega))
    rw [List.range_succ]
    refine h1.trans ?_
    refine (List.Perm.cons n h2).trans ?_
    exact (List.perm_append_singleton n (List.range n)).symm

theorem filterMap_range_getElem? {α} (ss : List α) :
    (List.range ss.length).filterMap (fun i => ss[i]?) = ss := by
  induction ss with
  | nil => simp
  | cons a ss ih =>
    rw [List.length_cons, List.range_succ_eq_map, List.filterMap_cons]
    simp only [List.getElem?_cons_zero, List.filterMap_map]
    congr 1

theorem insertByLen_perm (s : Sample) (l : List Sample) : (insertByLen s l).Perm (s :: l) := by
  induction l with
  | nil => simp [insertByLen]
  | cons y ys ih =>
    simp only [insertByLen]
    split
    · exact List.Perm.refl _
    · exact (List.Perm.cons y ih).trans (List.Perm.swap s y ys)

theorem sortByLen_perm (ss : List Sample) : (sortByLen ss).Perm ss := by
  induction ss with
  | nil => simp [sortByLen]
  | cons y ys ih =>
    have : sortByLen (y :: ys) = insertByLen y (sortByLen ys) := rfl
    rw [this]
    exact (insertByLen_perm _ _).trans (List.Perm.cons y ih)

theorem pickSorted_perm (ss : List Sample) (q : Queue) : (pickSorted ss q).1.Perm ss := by
  unfold pickSorted
  split
  · rename_i ix rest _
    simp only
    split
    · rename_i h
      simp only [Bool.and_eq_true, isPermOfRange, beq_iff_eq, List.all_eq_true,
        List.contains_iff_mem, List.mem_range] at h
      have hp := perm_range_of_all ss.length ix h.1.1 h.1.2
      have := hp.filterMap (fun i => ss[i]?)
      rw [filterMap_range_getElem?] at this
      exact this
    · exact sortByLen_perm ss
  · exact sortByLen_perm ss

theorem set_perm_eraseIdx {α} (ys : List α) (a : α) : ∀ (i : Nat), i < ys.length →
    (ys.set i a).Perm (ys.eraseIdx i ++ [a]) := by
  induction ys with
  | nil => intro i h; simp at h
  | cons y ys ih =>
    intro i h
    cases i with
    | zero => simpa using (List.perm_append_singleton a ys).symm
    | succ i =>
      simp only [List.set_cons_succ, List.eraseIdx_cons_succ, List.cons_append]
      exact List.Perm.cons y (ih i (by simpa using h))

theorem swapRemove_perm {α} (xs : List α) (i : Nat) (h : i < xs.length) :
    (swapRemove xs i).Perm (xs.eraseIdx i) := by
  have hne : xs ≠ [] := by intro h'; subst h'; simp at h
  obtain ⟨ys, last, rfl⟩ : ∃ ys last, xs = ys ++ [last] :=
    ⟨xs.dropLast, xs.getLast hne, (List.dropLast_concat_getLast hne).symm⟩
  unfold swapRemove
  rw [List.getLast?_concat]
  simp only [List.length_append, List.length_cons, List.length_nil, Nat.zero_add, Nat.add_right_cancel_iff, beq_iff_eq]
  split
  · rename_i hi
    subst hi
    rw [List.dropLast_concat, List.eraseIdx_append_of_length_le (Nat.le_refl _)]
    simp
  · rename_i hi
    have hlt : i < ys.length := by simp at h; omega
    rw [List.set_append, if_pos hlt, List.dropLast_concat, List.eraseIdx_append_of_lt_length hlt]
    exact set_perm_eraseIdx ys last i hlt

theorem argMax_ne_none (cands : List Cand) : ∀ (k : Nat) (b : Nat × Cand), argMax cands k (some b) ≠ none := by
  induction cands with
  | nil => intro k b; simp [argMax]
  | cons c rest ih =>
    intro k b
    obtain ⟨j, b⟩ := b
    simp only [argMax]
    split
    · exact ih _ _
    · exact ih _ _

theorem argMax_none (cands : List Cand) : argMax cands 0 none = none ↔ cands = [] := by
  cases cands with
  | nil => simp [argMax]
  | cons c rest =>
    simp only [argMax]
    constructor
    · intro h; exact absurd h (argMax_ne_none _ _ _)
    · intro h; cases h

theorem argMax_spec (cands : List Cand) : ∀ (k : Nat) (best : Option (Nat × Cand)) (i : Nat) (c : Cand),
    argMax cands k best = some (i, c) →
    best = some (i, c) ∨ (k ≤ i ∧ cands[i - k]? = some c) := by
  induction cands with
  | nil => intro k best i c h; simp [argMax] at h; exact Or.inl h
  | cons d rest ih =>
    intro k best i c h
    have lift : (k + 1 ≤ i ∧ rest[i - (k + 1)]? = some c) → (k ≤ i ∧ (d :: rest)[i - k]? = some c) := by
      rintro ⟨h1, h2⟩
      refine ⟨by omega, ?_⟩
      have : i - k = (i - (k + 1)) + 1 := by omega
      rw [this, List.getElem?_cons_succ]; exact h2
    have new : (some (k, d) : Option (Nat × Cand)) = some (i, c) → (k ≤ i ∧ (d :: rest)[i - k]? = some c) := by
      intro h1
      have : k = i ∧ d = c := by simpa using h1
      obtain ⟨rfl, rfl⟩ := this
      simp
    cases best with
    | none =>
      simp only [argMax] at h
      rcases ih _ _ _ _ h with h1 | h1
      · exact Or.inr (new h1)
      · exact Or.inr (lift h1)
    | some jb =>
      obtain ⟨j, b⟩ := jb
      simp only [argMax] at h
      split at h
      · rcases ih _ _ _ _ h with h1 | h1
        · exact Or.inr (new h1)
        · exact Or.inr (lift h1)
      · rcases ih _ _ _ _ h with h1 | h1
        · exact Or.inl h1
        · exact Or.inr (lift h1)

theorem argMax_some (cands : List Cand) (i : Nat) (c : Cand) (h : argMax cands 0 none = some (i, c)) :
    cands[i]? = some c := by
  rcases argMax_spec cands 0 none i c h with h1 | ⟨_, h2⟩
  · cases h1
  · simpa using h2

theorem tIter_ne_nil (L : List Int) (k : Nat) (hk : k ≤ L.length) : tIter L k ≠ [] := by
  obtain ⟨J, hJ, _⟩ := exists_tIter_superset L [] List.nodup_nil (by simp) k (by simp) hk
  intro h; rw [h] at hJ; simp at hJ

/-- the members of the set of size `k` -/
theorem mem_selfK (s : Sample) (k : Nat) (J : List Int) (hne : s.all ≠ []) :
    J ∈ selfK s k ↔ ∃ c ∈ s.all, J ∈ tIter c.decided (min c.decided.length k) := by
  unfold selfK
  simp only
  split
  · rename_i h
    exfalso
    rw [List.isEmpty_iff] at h
    obtain ⟨c, hc⟩ := List.exists_mem_of_ne_nil _ hne
    obtain ⟨J', hJ'⟩ := List.exists_mem_of_ne_nil _
      (tIter_ne_nil c.decided (min c.decided.length k) (Nat.min_le_left _ _))
    have : J' ∈ (s.all.flatMap fun c => tIter c.decided (min c.decided.length k)).eraseDups :=
      List.mem_eraseDups.2 (List.mem_flatMap.2 ⟨c, hc, hJ'⟩)
    rw [h] at this; simp at this
  · rw [List.mem_eraseDups, List.mem_flatMap]

theorem zip_selfInteractions (l r : Sample) (t : Nat) :
    (selfInteractions l t).zip (selfInteractions r t).reverse =
      (List.range (t - 1)).map fun j => (selfK l (j + 1), selfK r (t - (j + 1))) := by
  apply List.ext_getElem
  · simp [selfInteractions]
  · intro i h1 h2
    simp only [selfInteractions, List.length_zip, List.length_map, List.length_range,
      List.length_reverse] at h1
    simp only [selfInteractions, List.getElem_zip, List.getElem_map, List.getElem_range,
      List.getElem_reverse, List.length_map, List.length_range]
    congr 2
    omega

theorem mem_crossInteractions (l r : Sample) (t : Nat) (X : List Int) :
    X ∈ crossInteractions l r t ↔
      ∃ k, 1 ≤ k ∧ k < t ∧ ∃ a ∈ selfK l k, ∃ b ∈ selfK r (t - k), X = a ++ b := by
  unfold crossInteractions
  rw [List.mem_eraseDups, zip_selfInteractions]
  simp only [List.mem_flatMap, List.mem_map, List.mem_range]
  constructor
  · rintro ⟨p, ⟨j, hj, rfl⟩, a, ha, b, hb, rfl⟩
    exact ⟨j + 1, by omega, by omega, a, ha, b, hb, rfl⟩
  · rintro ⟨k, h1, h2, a, ha, b, hb, rfl⟩
    refine ⟨_, ⟨k - 1, by omega, rfl⟩, a, ?_, b, ?_, rfl⟩
    · have : k - 1 + 1 = k := by omega
      simpa [this] using ha
    · have : k - 1 + 1 = k := by omega
      simpa [this] using hb

end Ddnnf.TW
