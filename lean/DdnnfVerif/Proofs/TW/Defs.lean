/-
  Invariants of the t-wise construction (`Model/TWiseGen.lean`), shared by the proof files in
  `Proofs/TW/`.
-/
import DdnnfVerif.Model.TWiseGen
import DdnnfVerif.Proofs.SatState
import DdnnfVerif.Proofs.CountA
import DdnnfVerif.Proofs.Core
import DdnnfVerif.Proofs.PDLeaf
namespace Ddnnf.TW

/-- the complements of the literals of `L` (the leaves a query for `L` sets to 0) -/
def negs (L : List Int) : List Int := L.map fun l => -l

/-- some model of node `i` contains the complement of no literal of `L` -/
def SatAt (nodes : List NType) (i : Nat) (L : List Int) : Prop := countA nodes (negs L) i ≠ 0

/-- non-zero literals over the variables `V` -/
def Within (V : List Nat) (L : List Int) : Prop := ∀ l ∈ L, l ≠ 0 ∧ l.natAbs ∈ V

/-- an interaction: non-zero literals over pairwise distinct features -/
def Inter (L : List Int) : Prop := (∀ l ∈ L, l ≠ 0) ∧ (L.map Int.natAbs).Nodup

/-- no literal is excluded by the core (`makes_query_unsat` is false for every literal) -/
def NoAC (nodes : List NType) (n : Nat) (L : List Int) : Prop := ∀ l ∈ L, (-l) ∉ coreOf nodes n

/-- slot discipline of a configuration -/
structure CfgOK (n : Nat) (c : Cfg) : Prop where
  size : c.lits.size = n
  slot : ∀ k, k < n → c.lits.getD k 0 = 0 ∨ (c.lits.getD k 0).natAbs = k + 1
  nd : c.nd = c.decided.length

/-- the cached SAT state is the pure marking for some of the configuration's literals, for all of
them when it is flagged complete -/
def StOK (nodes : List NType) (c : Cfg) : Prop :=
  match c.st with
  | none => c.stc = false
  | some m => ∃ S : List Int, (∀ x ∈ S, x ∈ negs c.decided) ∧ SatS.IsPure nodes S m ∧
      (c.stc = true → ∀ x ∈ negs c.decided, x ∈ S)

/-- a configuration of a sample that is being built at node `p` for the variables `V` -/
structure CfgAt (nodes : List NType) (n : Nat) (p : Nat) (V : List Nat) (c : Cfg) : Prop where
  ok : CfgOK n c
  st : StOK nodes c
  within : Within V c.decided
  sat : SatAt nodes p c.decided
  noac : NoAC nodes n c.decided
  nonempty : c.decided ≠ []

/-- a sample that is being built at node `p` and speaks about the variables `V` (at an and-node the
variables of the children merged so far; otherwise the variables of the node): everything except
coverage -/
structure SampleInv (nodes : List NType) (n : Nat) (p : Nat) (V : List Nat) (s : Sample) : Prop where
  vars_nodup : s.vars.Nodup
  vars_mem : ∀ v, v ∈ s.vars ↔ v ∈ V
  cfgs : ∀ c ∈ s.all, CfgAt nodes n p V c
  complete : ∀ c ∈ s.complete, c.nd = s.vars.length

/-- every interaction of at most `t` literals over `V` that satisfies `Q` is inside a configuration -/
def Covers (t : Nat) (V : List Nat) (Q : List Int → Prop) (s : Sample) : Prop :=
  ∀ I, I ≠ [] → I.length ≤ t → Inter I → Within V I → Q I → s.covers I = true

structure SampleFor (nodes : List NType) (n t : Nat) (p : Nat) (V : List Nat) (s : Sample) : Prop where
  inv : SampleInv nodes n p V s
  cover : Covers t V (SatAt nodes p) s
  nonempty : s.all ≠ []

abbrev SampleAt (nodes : List NType) (n t : Nat) (i : Nat) (s : Sample) : Prop :=
  SampleFor nodes n t i (vars nodes i) s

/-- every partial model of node `i` is part of a model of the root -/
def Live (nodes : List NType) (i : Nat) : Prop :=
  (∀ v ∈ vars nodes i, v ∈ vars nodes (rootIx nodes)) ∧
  ∀ L, Inter L → Within (vars nodes i) L → SatAt nodes i L → SatAt nodes (rootIx nodes) L

/-- what is known about the result stored for node `i` -/
structure ResAt (nodes : List NType) (n t : Nat) (i : Nat) (r : Res) : Prop where
  void_iff : isVoid r = true ↔ count nodes i = 0
  sample_nonempty : ∀ s, r = .sample s → s.all ≠ []
  empty_vars : r = .empty → vars nodes i = []
  sample : ∀ s, r = .sample s → Live nodes i → SampleAt nodes n t i s

/-- two sets of variables are independent at `p`: partial models over the one and over the other
combine -/
def Indep (nodes : List NType) (p : Nat) (V1 V2 : List Nat) : Prop :=
  (∀ v ∈ V1, v ∉ V2) ∧
  ∀ L1 L2, Within V1 L1 → Within V2 L2 → SatAt nodes p L1 → SatAt nodes p L2 → SatAt nodes p (L1 ++ L2)

/-- the variables of a list of nodes -/
def varsOf (nodes : List NType) (D : List Nat) : List Nat := (D.map (vars nodes)).flatten

end Ddnnf.TW
