/-
  `cover_with_caching_sorted` (fitness-guided variant) and the folds over it.
-/
import DdnnfVerif.Proofs.TW.DefsA
namespace Ddnnf.TW

/-! ### the tail of `cover_with_caching_sorted`: the configuration at `idx` was extended -/

/-- what `coverSorted` does with the extended configuration -/
def placeA (s : Sample) (ps : List Cfg) (idx : Nat) (q : Queue) : Sample × Queue :=
  match ps[idx]? with
  | none => ({ s with partials := ps }, q)
  | some c =>
      let s' := { s with partials := ps }
      if s'.isComplete c then ({ s' with partials := ps.eraseIdx idx, complete := s'.complete ++ [c] }, q)
      else
        let (k, q') := pickMoved ps.length idx q
        ({ s' with partials := ((ps.eraseIdx idx).take k) ++ c :: ((ps.eraseIdx idx).drop k) }, q')

/-- the part of `coverSorted` after the two tests -/
def coverStepA (cx : Ctx) (node : Nat) (s : Sample) (I : List Int) (q : Queue) : Sample × Queue :=
  match cover cx node I s.partials 0 with
  | (ps, some idx) => placeA s ps idx q
  | (ps, none) =>
      (({ s with partials := ps }).add ((Cfg.ofLits I cx.n).setSat (satSub cx node cx.fresh I).1), q)

theorem coverSorted_eq (cx : Ctx) (node : Nat) (s : Sample) (I : List Int) (q : Queue) :
    coverSorted cx node s I q
      = if s.covers I then (s, q)
        else if (satSub cx node cx.fresh I).2 then coverStepA cx node s I q else (s, q) := by
  unfold coverSorted coverStepA placeA
  split
  · rfl
  · cases hb : (satSub cx node cx.fresh I).2
    · simp [hb]
    · simp only [hb, Bool.not_true, Bool.false_eq_true, if_false, if_true]
      rfl

theorem mem_eraseIdx_or {α} (xs : List α) (i : Nat) (c : α) (hi : xs[i]? = some c) (x : α) :
    (x ∈ xs.eraseIdx i ∨ x = c) ↔ x ∈ xs := by
  obtain ⟨hlt, hget⟩ := List.getElem?_eq_some_iff.mp hi
  constructor
  · rintro (hx | rfl)
    · exact List.mem_of_mem_eraseIdx hx
    · rw [← hget]; exact List.getElem_mem hlt
  · intro hx
    obtain ⟨j, hj, hjx⟩ := List.mem_iff_getElem.mp hx
    by_cases hji : j = i
    · subst hji
      exact Or.inr (by rw [← hjx, hget])
    · exact Or.inl (List.mem_eraseIdx_iff_getElem.mpr ⟨j, hj, hji, hjx⟩)

theorem mem_insertAt {α} (l : List α) (k : Nat) (c x : α) :
    x ∈ l.take k ++ c :: l.drop k ↔ (x ∈ l ∨ x = c) := by
  rw [List.mem_append, List.mem_cons]
  constructor
  · rintro (hx | rfl | hx)
    · exact Or.inl (List.mem_of_mem_take hx)
    · exact Or.inr rfl
    · exact Or.inl (List.mem_of_mem_drop hx)
  · rintro (hx | rfl)
    · rw [← List.take_append_drop k l, List.mem_append] at hx
      rcases hx with hx | hx
      · exact Or.inl hx
      · exact Or.inr (Or.inr hx)
    · exact Or.inr (Or.inl rfl)

theorem placeA_spec (s : Sample) (ps : List Cfg) (idx : Nat) (q : Queue) (c : Cfg)
    (hidx : ps[idx]? = some c) :
    (placeA s ps idx q).1.vars = s.vars ∧ (placeA s ps idx q).1.literals = s.literals ∧
    (∀ x, x ∈ (placeA s ps idx q).1.all ↔ (x ∈ s.complete ∨ x ∈ ps)) ∧
    (∀ x ∈ (placeA s ps idx q).1.complete, x ∈ s.complete ∨ (x = c ∧ c.nd = s.vars.length)) := by
  unfold placeA
  rw [hidx]
  dsimp only
  by_cases hcomp : ({ s with partials := ps } : Sample).isComplete c = true
  · rw [if_pos hcomp]
    refine ⟨rfl, rfl, fun x => ?_, fun x hx => ?_⟩
    · unfold Sample.all
      dsimp only
      rw [List.mem_append, List.mem_append, List.mem_singleton, or_assoc,
        or_comm (a := x = c), mem_eraseIdx_or ps idx c hidx x]
    · dsimp only at hx
      rcases List.mem_append.mp hx with hx | hx
      · exact Or.inl hx
      · refine Or.inr ⟨List.mem_singleton.mp hx, ?_⟩
        unfold Sample.isComplete at hcomp
        exact eq_of_beq hcomp
  · rw [if_neg hcomp]
    refine ⟨rfl, rfl, fun x => ?_, fun x hx => Or.inl hx⟩
    unfold Sample.all
    dsimp only
    rw [List.mem_append, mem_insertAt, mem_eraseIdx_or ps idx c hidx x]

theorem placeA_len (s : Sample) (ps : List Cfg) (idx : Nat) (q : Queue) :
    (placeA s ps idx q).1.len = s.complete.length + ps.length := by
  unfold placeA
  cases hidx : ps[idx]? with
  | none => rfl
  | some c =>
    obtain ⟨hlt, _⟩ := List.getElem?_eq_some_iff.mp hidx
    dsimp only
    by_cases hcomp : ({ s with partials := ps } : Sample).isComplete c = true
    · rw [if_pos hcomp]
      unfold Sample.len
      dsimp only
      rw [List.length_append, List.length_eraseIdx, if_pos hlt, List.length_singleton]
      omega
    · rw [if_neg hcomp]
      unfold Sample.len
      dsimp only
      have hl : ((ps.eraseIdx idx).take (pickMoved ps.length idx q).1 ++
          c :: (ps.eraseIdx idx).drop (pickMoved ps.length idx q).1).length
            = (ps.eraseIdx idx).length + 1 := by
        rw [List.length_append, List.length_cons, ← Nat.add_assoc, ← List.length_append,
          List.take_append_drop]
      rw [hl, List.length_eraseIdx, if_pos hlt]
      omega

theorem add_len (s : Sample) (c : Cfg) : (s.add c).len = s.len + 1 := by
  unfold Sample.add
  split
  · unfold Sample.addComplete Sample.len
    dsimp only
    rw [List.length_append, List.length_singleton]
    omega
  · unfold Sample.addPartial Sample.len
    dsimp only
    rw [List.length_append, List.length_singleton]
    omega

theorem add_literals (s : Sample) (c : Cfg) : (s.add c).literals = s.literals := by
  unfold Sample.add
  split <;> rfl

theorem coverStepA_len (cx : Ctx) (node : Nat) (s : Sample) (I : List Int) (q : Queue) :
    s.len ≤ (coverStepA cx node s I q).1.len := by
  have hl := cover_length cx node I s.partials 0
  unfold coverStepA
  generalize cover cx node I s.partials 0 = r at hl
  obtain ⟨ps, r⟩ := r
  dsimp only at hl
  cases r with
  | some idx =>
    dsimp only
    rw [placeA_len, hl]
    exact Nat.le_refl _
  | none =>
    dsimp only
    rw [add_len]
    unfold Sample.len
    dsimp only
    omega

theorem coverSorted_len (cx : Ctx) (node : Nat) (s : Sample) (I : List Int) (q : Queue) :
    s.len ≤ (coverSorted cx node s I q).1.len := by
  rw [coverSorted_eq]
  split
  · exact Nat.le_refl _
  · split
    · exact coverStepA_len cx node s I q
    · exact Nat.le_refl _

variable (nodes : List NType) (n : Nat)

theorem coverStepA_spec (h : WF nodes n) (hu : LitUnique nodes) (p : Nat) (hp : p < nodes.length)
    (hc : count nodes p ≠ 0) (V : List Nat) (hV : ∀ v ∈ V, 1 ≤ v ∧ v ≤ n)
    (s : Sample) (hs : SampleInv nodes n p V s)
    (I : List Int) (hne : I ≠ []) (hw : Within V I) (hII : ∀ l ∈ I, (-l) ∉ I)
    (hsat : SatAt nodes p I) (hnoac : NoAC nodes n I) (q : Queue) :
    SampleInv nodes n p V (coverStepA (ctxOf nodes n) p s I q).1 ∧
    KeepsCover n s (coverStepA (ctxOf nodes n) p s I q).1 ∧
    (coverStepA (ctxOf nodes n) p s I q).1.covers I = true ∧
    (coverStepA (ctxOf nodes n) p s I q).1.all ≠ [] ∧
    (coverStepA (ctxOf nodes n) p s I q).1.literals = s.literals := by
  have hpart : ∀ c ∈ s.partials, CfgAt nodes n p V c :=
    fun c hc => hs.cfgs c (List.mem_append_right _ hc)
  obtain ⟨i1, i2, i3⟩ := cover_spec nodes n h hu p hp hc V hV I hw hII s.partials 0 hpart
  unfold coverStepA
  generalize cover (ctxOf nodes n) p I s.partials 0 = r at i1 i2 i3
  obtain ⟨ps, r⟩ := r
  dsimp only at i1 i2 i3
  have hall1 : ∀ x, (x ∈ s.complete ∨ x ∈ ps) → CfgAt nodes n p V x := by
    intro x hx
    rcases hx with hx | hx
    · exact hs.cfgs x (List.mem_append_left _ hx)
    · exact i1 x hx
  have hgrow1 : ∀ c ∈ s.all, ∃ c', (c' ∈ s.complete ∨ c' ∈ ps) ∧
      ∀ x ∈ c.decided, x ∈ c'.decided := by
    intro c hc'
    rcases List.mem_append.mp hc' with hx | hx
    · exact ⟨c, Or.inl hx, fun _ hy => hy⟩
    · obtain ⟨c', hc', hsub⟩ := i2 c hx
      exact ⟨c', Or.inr hc', hsub⟩
  cases r with
  | some idx =>
    dsimp only
    obtain ⟨_, c', j2, j3⟩ := i3 idx rfl
    rw [Nat.sub_zero] at j2
    obtain ⟨q1, ql, q2, q3⟩ := placeA_spec s ps idx q c' j2
    have hc'mem : c' ∈ ps := List.mem_of_getElem? j2
    obtain ⟨f1, f2, f3, f4⟩ := finish nodes n p V hV s (placeA s ps idx q).1 hs I hw q1
      (fun x hx => hall1 x ((q2 x).mp hx)) (by
        intro x hx
        rcases q3 x hx with hx' | ⟨hxe, hnd⟩
        · exact hs.complete x hx'
        · rw [hxe]; exact hnd) (by
        intro c hc'
        obtain ⟨c'', hc'', hsub⟩ := hgrow1 c hc'
        exact ⟨c'', (q2 c'').mpr hc'', hsub⟩)
      ⟨c', (q2 c').mpr (Or.inr hc'mem), j3⟩
    exact ⟨f1, f2, f3, f4, ql⟩
  | none =>
    dsimp only
    have hIr : ∀ l ∈ I, l ≠ 0 ∧ l.natAbs ≤ n := fun l hl => ⟨(hw l hl).1, (hV _ (hw l hl).2).2⟩
    obtain ⟨o1, o2, _, _⟩ := cfgOK_ofLits n I hIr hII
    obtain ⟨_, u2⟩ := satSub_update nodes n h hu p hp hc I [] (ctxOf nodes n).fresh
      (fun x hx => by cases hx) (isPure_fresh nodes n h.topo) hnoac hsat
    have hn : (ctxOf nodes n).n = n := rfl
    rw [hn]
    generalize (satSub (ctxOf nodes n) p (ctxOf nodes n).fresh I).1 = m at u2
    have hd : ((Cfg.ofLits I n).setSat m).decided = (Cfg.ofLits I n).decided := decided_of_lits _ _ rfl
    have hmem : ∀ x, x ∈ ((Cfg.ofLits I n).setSat m).decided ↔ x ∈ I := fun x => by rw [hd, o2]
    have hpure : SatS.IsPure nodes (negs (Cfg.ofLits I n).decided) m :=
      isPure_perm nodes h.topo (negs I) _ (fun x => by rw [mem_negs, mem_negs, o2]) m u2
    have hnew : CfgAt nodes n p V ((Cfg.ofLits I n).setSat m) := by
      refine ⟨cfgOK_of_lits_nd n (Cfg.ofLits I n) _ o1 rfl rfl, stOK_setSat nodes _ m hpure,
        fun l hl => hw l ((hmem l).mp hl), (satAt_congr nodes p _ _ hmem).mpr hsat,
        fun l hl => hnoac l ((hmem l).mp hl), ?_⟩
      intro hnil
      obtain ⟨x, hx⟩ := List.exists_mem_of_ne_nil _ hne
      have := (hmem x).mpr hx
      rw [hnil] at this; cases this
    obtain ⟨q1, q2, q3⟩ := add_spec_sample ({ s with partials := ps } : Sample)
      ((Cfg.ofLits I n).setSat m)
    have hall2 : ∀ x, x ∈ ({ s with partials := ps } : Sample).all ↔ (x ∈ s.complete ∨ x ∈ ps) :=
      fun x => List.mem_append
    obtain ⟨f1, f2, f3, f4⟩ := finish nodes n p V hV s
      (({ s with partials := ps } : Sample).add ((Cfg.ofLits I n).setSat m)) hs I hw q1 (by
        intro x hx
        rcases (q2 x).mp hx with hx | rfl
        · exact hall1 x ((hall2 x).mp hx)
        · exact hnew) (by
        intro x hx
        rcases q3 x hx with hx' | ⟨hxe, hnd⟩
        · exact hs.complete x hx'
        · rw [hxe]; exact hnd) (by
        intro c hc'
        obtain ⟨c'', hc'', hsub⟩ := hgrow1 c hc'
        exact ⟨c'', (q2 c'').mpr (Or.inl ((hall2 c'').mpr hc'')), hsub⟩)
      ⟨_, (q2 _).mpr (Or.inr rfl), fun l hl => (hmem l).mpr hl⟩
    exact ⟨f1, f2, f3, f4, add_literals _ _⟩

/-- `cover_with_caching_sorted` for any list of literals over `V`, whatever position the oracle gives
the extended configuration: the sample stays well formed, nothing covered is lost, and the list is
covered afterwards if it is a partial model of the node -/
theorem coverSorted_spec (h : WF nodes n) (hu : LitUnique nodes) (p : Nat) (hp : p < nodes.length)
    (hc : count nodes p ≠ 0) (V : List Nat) (hV : ∀ v ∈ V, 1 ≤ v ∧ v ≤ n)
    (hVp : ∀ v ∈ V, v ∈ vars nodes p)
    (s : Sample) (hs : SampleInv nodes n p V s)
    (I : List Int) (hne : I ≠ []) (hw : Within V I) (q : Queue) :
    SampleInv nodes n p V (coverSorted (ctxOf nodes n) p s I q).1 ∧
    KeepsCover n s (coverSorted (ctxOf nodes n) p s I q).1 ∧
    (coverSorted (ctxOf nodes n) p s I q).1.literals = s.literals ∧
    (s.all ≠ [] → (coverSorted (ctxOf nodes n) p s I q).1.all ≠ []) ∧
    (SatAt nodes p I → NoAC nodes n I → (coverSorted (ctxOf nodes n) p s I q).1.covers I = true) := by
  rw [coverSorted_eq]
  by_cases hcov : s.covers I = true
  · rw [if_pos hcov]
    exact ⟨hs, keepsCover_refl n s, rfl, fun hx => hx, fun _ _ => hcov⟩
  · rw [if_neg hcov]
    obtain ⟨s1, _⟩ := satSub_spec nodes n h hu p hp hc [] I [] (ctxOf nodes n).fresh
      (fun x => Iff.rfl) (isPure_fresh nodes n h.topo)
    rw [List.nil_append] at s1
    by_cases hok : (satSub (ctxOf nodes n) p (ctxOf nodes n).fresh I).2 = true
    · rw [if_pos hok]
      obtain ⟨hnoac, hsat⟩ := s1.mp hok
      have hII : ∀ l ∈ I, (-l) ∉ I :=
        satAt_consistent nodes n h p I (fun l hl => ⟨(hw l hl).1, hVp _ (hw l hl).2⟩) hsat
      obtain ⟨r1, r2, r3, r4, r5⟩ :=
        coverStepA_spec nodes n h hu p hp hc V hV s hs I hne hw hII hsat hnoac q
      exact ⟨r1, r2, r5, fun _ => r4, fun _ _ => r3⟩
    · rw [if_neg hok]
      exact ⟨hs, keepsCover_refl n s, rfl, fun hx => hx,
        fun hsat hnoac => absurd (s1.mpr ⟨hnoac, hsat⟩) hok⟩

theorem foldCoverSorted_nil (cx : Ctx) (node : Nat) (s : Sample) (q : Queue) :
    foldCoverSorted cx node [] s q = (s, q) := rfl

theorem foldCoverSorted_cons (cx : Ctx) (node : Nat) (I : List Int) (rest : List (List Int))
    (s : Sample) (q : Queue) :
    foldCoverSorted cx node (I :: rest) s q
      = foldCoverSorted cx node rest (coverSorted cx node s I q).1 (coverSorted cx node s I q).2 := rfl

/-- the fold of `AttributeZippingMerger::merge` over the interactions to cover -/
theorem foldCoverSorted_spec (h : WF nodes n) (hu : LitUnique nodes) (p : Nat) (hp : p < nodes.length)
    (hc : count nodes p ≠ 0) (V : List Nat) (hV : ∀ v ∈ V, 1 ≤ v ∧ v ≤ n)
    (hVp : ∀ v ∈ V, v ∈ vars nodes p)
    (Is : List (List Int)) (hIs : ∀ I ∈ Is, I ≠ [] ∧ Within V I)
    (s : Sample) (hs : SampleInv nodes n p V s) (q : Queue) :
    SampleInv nodes n p V (foldCoverSorted (ctxOf nodes n) p Is s q).1 ∧
    KeepsCover n s (foldCoverSorted (ctxOf nodes n) p Is s q).1 ∧
    (foldCoverSorted (ctxOf nodes n) p Is s q).1.literals = s.literals ∧
    (s.all ≠ [] → (foldCoverSorted (ctxOf nodes n) p Is s q).1.all ≠ []) ∧
    (∀ I ∈ Is, SatAt nodes p I → NoAC nodes n I →
      (foldCoverSorted (ctxOf nodes n) p Is s q).1.covers I = true) := by
  induction Is generalizing s q with
  | nil =>
    rw [foldCoverSorted_nil]
    exact ⟨hs, keepsCover_refl n s, rfl, fun hx => hx, fun I hI => by cases hI⟩
  | cons I rest ih =>
    rw [foldCoverSorted_cons]
    obtain ⟨hIne, hIw⟩ := hIs I (List.mem_cons_self ..)
    obtain ⟨c1, c2, c3, c4, c5⟩ :=
      coverSorted_spec nodes n h hu p hp hc V hV hVp s hs I hIne hIw q
    obtain ⟨r1, r2, r3, r4, r5⟩ :=
      ih (fun J hJ => hIs J (List.mem_cons_of_mem _ hJ)) _ c1 (coverSorted (ctxOf nodes n) p s I q).2
    refine ⟨r1, keepsCover_trans n c2 r2, by rw [r3, c3], fun hx => r4 (c4 hx), ?_⟩
    intro J hJ hsat hnoac
    rcases List.mem_cons.mp hJ with rfl | hJ
    · exact r2 J (fun l hl _ => (hV _ (hIw l hl).2).2) (c5 hsat hnoac)
    · exact r5 J hJ hsat hnoac

/-- without any hypothesis: the number of configurations never goes down -/
theorem foldCoverSorted_len (cx : Ctx) (p : Nat) (Is : List (List Int)) (s : Sample) (q : Queue) :
    s.len ≤ (foldCoverSorted cx p Is s q).1.len := by
  induction Is generalizing s q with
  | nil => exact Nat.le_refl _
  | cons I rest ih =>
    rw [foldCoverSorted_cons]
    exact Nat.le_trans (coverSorted_len cx p s I q) (ih _ _)

end Ddnnf.TW
