/-
  The two statements about the t-wise construction (`TW.run_valid`, `TW.run_covers`) without the
  hypothesis that the model is satisfiable, and end to end for d4 texts.
-/
import DdnnfVerif.Proofs.TW.Root
import DdnnfVerif.Proofs.EndToEnd2
namespace Ddnnf.TW

namespace E2E

variable (nodes : List NType)

/-! ### the result of a node is `.void` exactly when the node has no model (needs only `Topo`) -/

/-- the part `void_iff` of `ResAt` -/
def VoidAt (i : Nat) (r : Res) : Prop := isVoid r = true ↔ count nodes i = 0

theorem partialSample_void (ht : Topo nodes) (cx : Ctx) (t : Nat) (i : Nat) (hi : i < nodes.length)
    (get : Nat → Res) (hget : ∀ j, j < i → VoidAt nodes j (get j)) (q : Queue) :
    VoidAt nodes i (partialSample cx t get i nodes[i] q).1 := by
  unfold VoidAt
  cases hnd : nodes[i] with
  | and cs =>
    have hlt : ∀ c ∈ cs, c < i := fun c hc => ht i hi c (by rw [hnd]; exact hc)
    have hch : ∀ c ∈ cs, VoidAt nodes c (get c) := fun c hc => hget c (hlt c hc)
    by_cases hv : (cs.map get).any isVoid = true
    · have hr : (partialSample cx t get i (.and cs) q).1 = .void := by
        simp only [partialSample, hv, if_true]
      rw [hr]
      have : count nodes i = 0 := by
        apply Classical.byContradiction
        intro hc
        rw [List.any_eq_true] at hv
        obtain ⟨r, hr, hvr⟩ := hv
        rw [List.mem_map] at hr
        obtain ⟨c, hc', rfl⟩ := hr
        exact (Nodes.count_and_ne nodes ht i hi cs hnd).mp hc c hc' ((hch c hc').mp hvr)
      simp [isVoid, this]
    · have hr : (partialSample cx t get i (.and cs) q).1
          = Res.ofSample (andMergeAll cx t i ((cs.map get).filterMap resSample) q).1 := by
        simp only [partialSample, hv]
        rfl
      rw [hr, Nodes.isVoid_ofSample]
      have hall : ∀ c ∈ cs, count nodes c ≠ 0 := by
        intro c hc hz
        have := (hch c hc).mpr hz
        exact hv (List.any_eq_true.mpr ⟨get c, List.mem_map.mpr ⟨c, hc, rfl⟩, this⟩)
      have := (Nodes.count_and_ne nodes ht i hi cs hnd).mpr hall
      simp [this]
  | or cs =>
    have hlt : ∀ c ∈ cs, c < i := fun c hc => ht i hi c (by rw [hnd]; exact hc)
    have hch : ∀ c ∈ cs, VoidAt nodes c (get c) := fun c hc => hget c (hlt c hc)
    by_cases hv : (cs.map get).all isVoid = true
    · have hr : (partialSample cx t get i (.or cs) q).1 = .void := by
        simp only [partialSample, hv, if_true]
      rw [hr]
      have : count nodes i = 0 := by
        apply Classical.byContradiction
        intro hc
        obtain ⟨c, hc', hcc⟩ := (Nodes.count_or_ne nodes ht i hi cs hnd).mp hc
        rw [List.all_eq_true] at hv
        exact hcc ((hch c hc').mp (hv _ (List.mem_map.mpr ⟨c, hc', rfl⟩)))
      simp [isVoid, this]
    · have hr : (partialSample cx t get i (.or cs) q).1
          = Res.ofSample (((cs.map get).filterMap resSample).foldl (orMerge t) {}) := by
        simp only [partialSample, hv]
        rfl
      rw [hr, Nodes.isVoid_ofSample]
      have hex : ∃ c ∈ cs, count nodes c ≠ 0 := by
        apply Classical.byContradiction
        intro hno
        apply hv
        rw [List.all_eq_true]
        intro r hr
        rw [List.mem_map] at hr
        obtain ⟨c, hc, rfl⟩ := hr
        apply (hch c hc).mpr
        apply Classical.byContradiction
        intro hz
        exact hno ⟨c, hc, hz⟩
      have := (Nodes.count_or_ne nodes ht i hi cs hnd).mpr hex
      simp [this]
  | lit l =>
    have hcnt : count nodes i = 1 := by rw [Nodes.count_eq nodes i hi, hnd]; rfl
    show isVoid (.sample (Sample.ofLiteral l cx.n)) = true ↔ _
    rw [hcnt]; simp [isVoid]
  | tru =>
    have hcnt : count nodes i = 1 := by rw [Nodes.count_eq nodes i hi, hnd]; rfl
    show isVoid .empty = true ↔ _
    rw [hcnt]; simp [isVoid]
  | fls =>
    have hcnt : count nodes i = 0 := by rw [Nodes.count_eq nodes i hi, hnd]; rfl
    show isVoid .void = true ↔ _
    rw [hcnt]; simp [isVoid]

/-- the loop, started anywhere -/
theorem sampleNodes_void_gen (ht : Topo nodes) (cx : Ctx) (t : Nat) :
    ∀ (rest : List NType) (k : Nat) (acc : Array Res) (q : Queue),
      rest = nodes.drop k → k ≤ nodes.length → acc.size = k →
      (∀ j, j < k → VoidAt nodes j (acc.getD j .void)) →
      ∀ i, i < nodes.length → VoidAt nodes i ((sampleNodes cx t rest acc q).1.getD i .void) := by
  intro rest
  induction rest with
  | nil =>
    intro k acc q hrest hk hsize hacc
    have hlen : nodes.length ≤ k := List.drop_eq_nil_iff.mp hrest.symm
    have hkk : k = nodes.length := by omega
    subst hkk
    exact hacc
  | cons nd rest ih =>
    intro k acc q hrest hk hsize hacc
    have hklt : k < nodes.length := by
      apply Classical.byContradiction
      intro hge
      have : nodes.drop k = [] := List.drop_eq_nil_iff.mpr (by omega)
      rw [this] at hrest
      cases hrest
    rw [List.drop_eq_getElem_cons hklt] at hrest
    injection hrest with hnd hrest'
    have hstep : sampleNodes cx t (nd :: rest) acc q
        = sampleNodes cx t rest
            (acc.push (partialSample cx t (fun j => acc.getD j .void) acc.size nd q).1)
            (partialSample cx t (fun j => acc.getD j .void) acc.size nd q).2 := by
      simp only [sampleNodes]
    rw [hstep]
    have hone := partialSample_void nodes ht cx t k hklt (fun j => acc.getD j .void) hacc q
    rw [← hnd, ← hsize] at hone
    apply ih (k + 1) _ _ hrest' (by omega) (by rw [Array.size_push, hsize])
    intro j hj
    by_cases hjk : j < k
    · have : (acc.push (partialSample cx t (fun j => acc.getD j .void) acc.size nd q).1).getD j .void
          = acc.getD j .void := by
        exact getD_push_lt _ _ _ _ (by omega)
      rw [this]
      exact hacc j hjk
    · have hjk' : j = k := by omega
      have : (acc.push (partialSample cx t (fun j => acc.getD j .void) acc.size nd q).1).getD j .void
          = (partialSample cx t (fun j => acc.getD j .void) acc.size nd q).1 := by
        rw [hjk', ← hsize]; exact getD_push_eq _ _ _
      rw [this, hjk']
      rw [hsize] at hone ⊢
      exact hone

/-- the whole pass: the entry of node `i` is `.void` exactly when `count nodes i = 0` -/
theorem sampleNodes_void (ht : Topo nodes) (cx : Ctx) (t : Nat) (q : Queue) (i : Nat)
    (hi : i < nodes.length) :
    isVoid ((sampleNodes cx t nodes #[] q).1.getD i .void) = true ↔ count nodes i = 0 :=
  sampleNodes_void_gen nodes ht cx t nodes 0 #[] q rfl (Nat.zero_le _) rfl
    (fun j hj => by omega) i hi

/-- more assumptions, fewer models -/
theorem specCount_le_nil (n : Nat) (I : List Int) : specCount nodes n I ≤ specCount nodes n [] := by
  unfold specCount
  rw [← List.countP_eq_length_filter, ← List.countP_eq_length_filter]
  apply List.countP_mono_left
  intro b _ hb
  rw [Bool.and_eq_true] at hb
  rw [hb.1]
  rfl

theorem count_pos_of_specCount (n : Nat) (h : WF nodes n) (I : List Int)
    (hsat : 0 < specCount nodes n I) : 0 < count nodes (rootIx nodes) := by
  rw [count_eq_specCount nodes n h]
  exact Nat.lt_of_lt_of_le hsat (specCount_le_nil nodes n I)

/-- exactly one assignment to `1..n` satisfies the circuit and contains a complete configuration that
is (up to the order of its literals) a listed model -/
theorem specCount_complete_model (n : Nat) (c : List Int) (hc : Complete n c)
    (hm : ∃ m ∈ models nodes (rootIx nodes), m.Perm c) : specCount nodes n c = 1 := by
  obtain ⟨m, hm, hp⟩ := hm
  unfold specCount
  rw [← List.countP_eq_length_filter, ← countP_allBits_one n c hc.1 hc.2]
  apply List.countP_congr
  intro b _
  have he : satCfg (assignOf b) c = c.all (litTrue (assignOf b)) := rfl
  rw [he]
  constructor
  · intro hb
    rw [Bool.and_eq_true] at hb
    exact hb.2
  · intro hb
    rw [Bool.and_eq_true]
    refine ⟨?_, hb⟩
    rw [eval_iff_models]
    refine ⟨m, hm, ?_⟩
    have : satCfg (assignOf b) m = satCfg (assignOf b) c := hp.all_eq
    rw [this]
    exact hb

end E2E

/-! ### (A) the unsatisfiable case -/

/-- a model without solutions: the construction returns no configuration -/
theorem run_void_of_unsat (nodes : List NType) (n : Nat) (h : WF nodes n)
    (hzero : count nodes (rootIx nodes) = 0) (t : Nat) (q : Queue) :
    (run nodes n t q).configs = [] := by
  have hroot := Root.root_lt nodes n h
  have hv := (E2E.sampleNodes_void nodes h.topo (ctxOf nodes n) t q (rootIx nodes) hroot).mpr hzero
  rcases Root.run_cases nodes n t q with ⟨_, hrun⟩ | ⟨s, hr, _⟩
  · rw [hrun]
    cases hr : (sampleNodes (ctxOf nodes n) t nodes #[] q).1.getD (rootIx nodes) .void with
    | sample s => rw [hr] at hv; cases hv
    | empty => rfl
    | void => rfl
  · rw [hr] at hv
    cases hv

/-- every configuration the construction returns is a complete model (no hypothesis on the count) -/
theorem run_valid_all (nodes : List NType) (n : Nat) (h : WF nodes n) (hu : LitUnique nodes)
    (t : Nat) (ht : 1 ≤ t) (q : Queue) :
    ∀ c ∈ (run nodes n t q).configs, Complete n c ∧ ∃ m ∈ models nodes (rootIx nodes), m.Perm c := by
  by_cases hpos : 0 < count nodes (rootIx nodes)
  · exact run_valid nodes n h hu hpos t ht q
  · intro c hc
    rw [run_void_of_unsat nodes n h (by omega) t q] at hc
    cases hc

/-- every set of `t` literals over distinct features that is contained in a model is contained in a
configuration the construction returns (no hypothesis on the count) -/
theorem run_covers_all (nodes : List NType) (n : Nat) (h : WF nodes n) (hu : LitUnique nodes)
    (t : Nat) (ht : 1 ≤ t) (q : Queue)
    (I : List Int) (hlen : I.length = t) (hrange : ∀ l ∈ I, l ≠ 0 ∧ l.natAbs ≤ n)
    (hdistinct : (I.map Int.natAbs).Nodup) (hsat : 0 < specCount nodes n I) :
    ∃ c ∈ (run nodes n t q).configs, ∀ l ∈ I, l ∈ c :=
  run_covers nodes n h hu (E2E.count_pos_of_specCount nodes n h I hsat) t ht q I hlen hrange
    hdistinct hsat

end Ddnnf.TW

/-! ### (B) end to end for d4 texts -/

namespace Ddnnf.D4

/-- **text → loader → t-wise sample**: every configuration of the sample decides every feature and is
a model of the text (the text has exactly one model that contains all its literals) -/
theorem loaded_twise_only_models (lines : List Line) (total : Nat)
    (h : conventions2B lines total = true) (t : Nat) (ht : 1 ≤ t) (q : TW.Queue) :
    ∀ c ∈ (TW.run (load lines total).2.1 (load lines total).1 t q).configs,
      Complete (load lines total).1 c ∧ textCount lines total c = 1 := by
  obtain ⟨hwf, hu, _⟩ := conventions2B_sound lines total h
  intro c hc
  obtain ⟨h1, h2⟩ := TW.run_valid_all _ _ hwf hu t ht q c hc
  refine ⟨h1, ?_⟩
  rw [← specCount_eq_textCount lines total (conventions2B_left lines total h)]
  exact TW.E2E.specCount_complete_model _ _ c h1 h2

/-- **text → loader → t-wise sample**: every set of `t` literals over distinct features that is
contained in a model of the text is contained in a configuration of the sample -/
theorem loaded_twise_covers (lines : List Line) (total : Nat)
    (h : conventions2B lines total = true) (t : Nat) (ht : 1 ≤ t) (q : TW.Queue)
    (I : List Int) (hlen : I.length = t)
    (hrange : ∀ l ∈ I, l ≠ 0 ∧ l.natAbs ≤ (load lines total).1)
    (hdistinct : (I.map Int.natAbs).Nodup) (hsat : 0 < textCount lines total I) :
    ∃ c ∈ (TW.run (load lines total).2.1 (load lines total).1 t q).configs, ∀ l ∈ I, l ∈ c := by
  obtain ⟨hwf, hu, _⟩ := conventions2B_sound lines total h
  rw [← specCount_eq_textCount lines total (conventions2B_left lines total h)] at hsat
  exact TW.run_covers_all _ _ hwf hu t ht q I hlen hrange hdistinct hsat

end Ddnnf.D4
