/-
  And-nodes of the fitness-guided variant: `AttributeZippingMerger`.
-/
import DdnnfVerif.Proofs.TW.CoverA
import DdnnfVerif.Proofs.TW.AndAAux
namespace Ddnnf.TW

variable (nodes : List NType) (n : Nat)

/-- `AttributeZippingMerger::merge` of two non-empty samples over independent variable sets; `hnoac`:
partial models of `p` over these variables contain no literal excluded by the core (true at live nodes) -/
theorem andMergeA_spec (h : WF nodes n) (hu : LitUnique nodes) (t : Nat) (p : Nat) (hp : p < nodes.length)
    (hc : count nodes p ≠ 0) (V1 V2 : List Nat) (hV1 : ∀ v ∈ V1, 1 ≤ v ∧ v ≤ n) (hV2 : ∀ v ∈ V2, 1 ≤ v ∧ v ≤ n)
    (hVp : ∀ v ∈ V1 ++ V2, v ∈ vars nodes p)
    (hind : Indep nodes p V1 V2)
    (hnoac : ∀ L, Inter L → Within (V1 ++ V2) L → SatAt nodes p L → NoAC nodes n L)
    (s1 s2 : Sample) (h1 : SampleForA nodes n t p V1 s1) (h2 : SampleForA nodes n t p V2 s2) (q : Queue) :
    SampleForA nodes n t p (V1 ++ V2) (andMergeA (ctxOf nodes n) t p s1 s2 q).1 := by
  have hne1 := h1.nonempty
  have hne2 := h2.nonempty
  rw [andMergeA_both (ctxOf nodes n) t p s1 s2 q ((isEmpty_false_iff s1).mpr hne1)
    ((isEmpty_false_iff s2).mpr hne2)]
  show SampleForA nodes n t p (V1 ++ V2)
    (foldCoverSorted (ctxOf nodes n) p
      (pickInter (crossLiterals s1 s2 t (zipSamplesA s1 s2 n q).1) (zipSamplesA s1 s2 n q).2).1
      (zipSamplesA s1 s2 n q).1
      (pickInter (crossLiterals s1 s2 t (zipSamplesA s1 s2 n q).1) (zipSamplesA s1 s2 n q).2).2).1
  have hV : ∀ v ∈ V1 ++ V2, 1 ≤ v ∧ v ≤ n := by
    intro v hv
    rcases List.mem_append.mp hv with h | h
    · exact hV1 v h
    · exact hV2 v h
  have hZ := zipSamplesA_inv nodes n p V1 V2 hind s1 s2 h1.inv h2.inv q
  obtain ⟨kZ1, kZ2⟩ := zipSamplesA_keeps nodes n p V1 V2 hind s1 s2 h1.inv h2.inv q
  have hZne := zipSamplesA_nonempty n s1 s2 q hne1 hne2
  have hZl := zipSamplesA_literals n s1 s2 q
  have hmemX := mem_crossLiterals s1 s2 t (zipSamplesA s1 s2 n q).1
  generalize (zipSamplesA s1 s2 n q).2 = Q
  generalize (zipSamplesA s1 s2 n q).1 = Z at hZ kZ1 kZ2 hZne hZl hmemX ⊢
  have hord : ∀ X ∈ (pickInter (crossLiterals s1 s2 t Z) Q).1, X ≠ [] ∧ Within (V1 ++ V2) X := by
    intro X hX
    obtain ⟨⟨k, hk1, hkt, a, ha, b, hb, rfl⟩, hnc⟩ := (hmemX X).mp ((pickInter_mem _ _ X).mp hX)
    constructor
    · intro h0
      rw [h0, covers_nil _ hZne] at hnc
      cases hnc
    · intro x hx
      rcases List.mem_append.mp hx with hx' | hx'
      · have := h1.lits.within x (mem_of_mem_tIter ha x hx')
        exact ⟨this.1, List.mem_append_left _ this.2⟩
      · have := h2.lits.within x (mem_of_mem_tIter hb x hx')
        exact ⟨this.1, List.mem_append_right _ this.2⟩
  obtain ⟨iR, kR, lR, neR, cR⟩ := foldCoverSorted_spec nodes n h hu p hp hc (V1 ++ V2) hV hVp
    (pickInter (crossLiterals s1 s2 t Z) Q).1 hord Z hZ (pickInter (crossLiterals s1 s2 t Z) Q).2
  refine ⟨iR, ⟨?_, ?_⟩, ?_, neR hZne⟩
  · intro x hx
    rw [lR, hZl, mem_setOfInt] at hx
    rcases List.mem_append.mp hx with hx' | hx'
    · have := h1.lits.within x hx'
      exact ⟨this.1, List.mem_append_left _ this.2⟩
    · have := h2.lits.within x hx'
      exact ⟨this.1, List.mem_append_right _ this.2⟩
  · intro x h0 hx hq
    rw [lR, hZl, mem_setOfInt, List.mem_append]
    rcases List.mem_append.mp hx with hx' | hx'
    · exact Or.inl (h1.lits.all x h0 hx' hq)
    · exact Or.inr (h2.lits.all x h0 hx' hq)
  intro I hIlen hInter hW hsat
  have hIr : InRangeL n I := fun l hl _ => (hV _ (hW l hl).2).2
  have hIndup : I.Nodup := nodup_of_map_nodup Int.natAbs I hInter.2
  have hsplit := filter_length_add (fun l : Int => decide (l.natAbs ∈ V1)) I
  generalize hI1 : I.filter (fun l : Int => decide (l.natAbs ∈ V1)) = I1 at hsplit
  generalize hI2 : I.filter (fun l : Int => !decide (l.natAbs ∈ V1)) = I2 at hsplit
  have hs1 : I1.Sublist I := hI1 ▸ List.filter_sublist
  have hs2 : I2.Sublist I := hI2 ▸ List.filter_sublist
  have hm1 : ∀ l, l ∈ I1 ↔ l ∈ I ∧ l.natAbs ∈ V1 := by
    intro l; rw [← hI1, List.mem_filter]; simp
  have hm2 : ∀ l, l ∈ I2 ↔ l ∈ I ∧ l.natAbs ∉ V1 := by
    intro l; rw [← hI2, List.mem_filter]; simp
  have hW1 : Within V1 I1 := fun l hl => ⟨hInter.1 l ((hm1 l).mp hl).1, ((hm1 l).mp hl).2⟩
  have hW2 : Within V2 I2 := by
    intro l hl
    obtain ⟨hlI, hn1⟩ := (hm2 l).mp hl
    refine ⟨hInter.1 l hlI, ?_⟩
    rcases List.mem_append.mp (hW l hlI).2 with h | h
    · exact absurd h hn1
    · exact h
  by_cases he2 : I2 = []
  · have hWI : Within V1 I := by
      intro l hl
      refine ⟨hInter.1 l hl, ?_⟩
      apply Classical.byContradiction
      intro hn
      have : l ∈ I2 := (hm2 l).mpr ⟨hl, hn⟩
      rw [he2] at this
      cases this
    exact kR I hIr (kZ1 I hIr (h1.cover I hIlen hInter hWI hsat))
  by_cases he1 : I1 = []
  · have hWI : Within V2 I := by
      intro l hl
      refine ⟨hInter.1 l hl, ?_⟩
      rcases List.mem_append.mp (hW l hl).2 with h | h
      · have : l ∈ I1 := (hm1 l).mpr ⟨hl, h⟩
        rw [he1] at this
        cases this
      · exact h
    exact kR I hIr (kZ2 I hIr (h2.cover I hIlen hInter hWI hsat))
  -- both parts non-empty
  have hl1 : 1 ≤ I1.length := List.length_pos_iff.mpr he1
  have hl2 : 1 ≤ I2.length := List.length_pos_iff.mpr he2
  have hnd1 : I1.Nodup := hs1.nodup hIndup
  have hnd2 : I2.Nodup := hs2.nodup hIndup
  have hsingle : ∀ x ∈ I, SatAt nodes p [x] := by
    intro x hx
    apply satAt_mono nodes p [x] I ?_ hsat
    intro y hy
    rw [List.mem_singleton] at hy
    rw [hy]; exact hx
  have hin1 : ∀ x ∈ I1, x ∈ s1.literals := fun x hx =>
    h1.lits.all x (hW1 x hx).1 (hW1 x hx).2 (hsingle x ((hm1 x).mp hx).1)
  have hin2 : ∀ x ∈ I2, x ∈ s2.literals := fun x hx =>
    h2.lits.all x (hW2 x hx).1 (hW2 x hx).2 (hsingle x ((hm2 x).mp hx).1)
  have hle1 : I1.length ≤ s1.literals.length := length_le_of_nodup_subset I1 _ hnd1 hin1
  have hle2 : I2.length ≤ s2.literals.length := length_le_of_nodup_subset I2 _ hnd2 hin2
  obtain ⟨a, ha, hsa⟩ := exists_tIter_same s1.literals I1 hnd1 hin1
  obtain ⟨b, hb, hsb⟩ := exists_tIter_same s2.literals I2 hnd2 hin2
  have hXI : ∀ x, x ∈ a ++ b ↔ x ∈ I := by
    intro x
    rw [List.mem_append, hsa, hsb, hm1, hm2]
    constructor
    · rintro (⟨h, _⟩ | ⟨h, _⟩) <;> exact h
    · intro hx
      by_cases hv : x.natAbs ∈ V1
      · exact Or.inl ⟨hx, hv⟩
      · exact Or.inr ⟨hx, hv⟩
  have hWX : Within (V1 ++ V2) (a ++ b) := fun x hx => hW x ((hXI x).mp hx)
  have hXr : InRangeL n (a ++ b) := fun l hl _ => (hV _ (hWX l hl).2).2
  have hXc : (foldCoverSorted (ctxOf nodes n) p (pickInter (crossLiterals s1 s2 t Z) Q).1 Z
      (pickInter (crossLiterals s1 s2 t Z) Q).2).1.covers (a ++ b) = true := by
    cases hz : Z.covers (a ++ b) with
    | true => exact kR _ hXr hz
    | false =>
      have hX : a ++ b ∈ crossLiterals s1 s2 t Z := by
        refine (hmemX _).mpr ⟨⟨I1.length, hl1, by omega, a, ?_, b, ?_, rfl⟩, hz⟩
        · rw [Nat.min_eq_right hle1]; exact ha
        · rw [show t - I1.length = I2.length by omega, Nat.min_eq_right hle2]; exact hb
      exact cR _ ((pickInter_mem _ _ _).mpr hX) ((satAt_congr nodes p _ I hXI).mpr hsat)
        (fun l hl => hnoac I hInter hW hsat l ((hXI l).mp hl))
  apply covers_subset n _ (fun c hc => (iR.cfgs c hc).ok) (a ++ b) I hXr hIr ?_ hXc
  intro l hl _
  exact (hXI l).mpr hl

/-- only the members of `V` matter -/
theorem sampleForA_congr (t p : Nat) (V V' : List Nat) (hVV : ∀ v, v ∈ V ↔ v ∈ V') (s : Sample)
    (hs : SampleForA nodes n t p V s) : SampleForA nodes n t p V' s :=
  ⟨sampleInv_congr nodes n p V V' hVV s hs.inv, litsOK_congr V V' hVV _ s hs.lits,
   coversEq_congr t V V' (fun v => (hVV v).mpr) _ s hs.cover, hs.nonempty⟩

/-! ### `merge_all` -/

/-- the accumulator of `merge_all` (and every operand): nothing merged yet, or a sample for the
children `D` merged so far -/
def AccOKA (t p : Nat) (D : List Nat) (s : Sample) : Prop :=
  (D = [] ∧ s.isEmpty = true) ∨ (D ≠ [] ∧ SampleForA nodes n t p (varsOf nodes D) s)

theorem count_ne_of_sampleForA (t p : Nat) (V : List Nat) (s : Sample) (hs : SampleForA nodes n t p V s) :
    count nodes p ≠ 0 := by
  obtain ⟨c, cs', hc⟩ := List.exists_cons_of_ne_nil hs.nonempty
  have := hs.inv.cfgs c (by rw [hc]; exact List.mem_cons_self ..)
  exact satAt_count nodes p _ this.sat

theorem accOKA_empty_iff (t p : Nat) (D : List Nat) (s : Sample) (hs : AccOKA nodes n t p D s) :
    (s.isEmpty = true → D = []) ∧ (s.isEmpty = false → D ≠ [] ∧ SampleForA nodes n t p (varsOf nodes D) s) := by
  rcases hs with ⟨h1, h2⟩ | ⟨h1, h2⟩
  · exact ⟨fun _ => h1, fun h => by rw [h2] at h; cases h⟩
  · refine ⟨fun h => ?_, fun _ => ⟨h1, h2⟩⟩
    exact absurd ((isEmpty_iff s).mp h) h2.nonempty

theorem merge_stepA (h : WF nodes n) (hu : LitUnique nodes) (t : Nat) (p : Nat) (hp : p < nodes.length)
    (cs : List Nat) (hnd : nodes[p] = .and cs) (hall : ∀ c ∈ cs, count nodes c ≠ 0)
    (hrange : ∀ v ∈ vars nodes p, 1 ≤ v ∧ v ≤ n)
    (hnoac : ∀ L, Inter L → Within (vars nodes p) L → SatAt nodes p L → NoAC nodes n L)
    (D Ds : List Nat) (acc s : Sample) (q : Queue)
    (hacc : AccOKA nodes n t p D acc) (hs : AccOKA nodes n t p Ds s)
    (hnodup : (D ++ Ds).Nodup) (hsub : ∀ d ∈ D ++ Ds, d ∈ cs) :
    AccOKA nodes n t p (D ++ Ds) (andMergeA (ctxOf nodes n) t p acc s q).1 := by
  obtain ⟨a1, a2⟩ := accOKA_empty_iff nodes n t p D acc hacc
  obtain ⟨b1, b2⟩ := accOKA_empty_iff nodes n t p Ds s hs
  cases ha : acc.isEmpty with
  | true =>
    rw [andMergeA_left_empty _ t p acc s q ha, a1 ha, List.nil_append]
    exact hs
  | false =>
    cases hb : s.isEmpty with
    | true =>
      rw [andMergeA_right_empty _ t p acc s q ha hb, b1 hb, List.append_nil]
      exact hacc
    | false =>
      obtain ⟨hD, hA⟩ := a2 ha
      obtain ⟨_, hS⟩ := b2 hb
      have hVs : ∀ E : List Nat, (∀ d ∈ E, d ∈ cs) → ∀ v ∈ varsOf nodes E, v ∈ vars nodes p := by
        intro E hE v hv
        rw [vars_and nodes h.topo p hp cs hnd, mem_varsOf]
        obtain ⟨d, hd, hvd⟩ := (mem_varsOf nodes E v).mp hv
        exact ⟨d, hE d hd, hvd⟩
      have hVp : ∀ v ∈ varsOf nodes D ++ varsOf nodes Ds, v ∈ vars nodes p := by
        intro v hv
        rcases List.mem_append.mp hv with hv' | hv'
        · exact hVs D (fun d hd => hsub d (List.mem_append_left _ hd)) v hv'
        · exact hVs Ds (fun d hd => hsub d (List.mem_append_right _ hd)) v hv'
      refine Or.inr ⟨fun h0 => hD (List.append_eq_nil_iff.mp h0).1, ?_⟩
      rw [varsOf_append]
      exact andMergeA_spec nodes n h hu t p hp (count_ne_of_sampleForA nodes n t p _ acc hA) _ _
        (fun v hv => hrange v (hVp v (List.mem_append_left _ hv)))
        (fun v hv => hrange v (hVp v (List.mem_append_right _ hv)))
        hVp
        (indep_of_children nodes n h p hp cs hnd hall D Ds hnodup hsub)
        (fun L hI hW hS' => hnoac L hI (within_mono hVp hW) hS') acc s hA hS q

theorem foldMergeA_spec (h : WF nodes n) (hu : LitUnique nodes) (t : Nat) (p : Nat) (hp : p < nodes.length)
    (cs : List Nat) (hnd : nodes[p] = .and cs) (hall : ∀ c ∈ cs, count nodes c ≠ 0)
    (hrange : ∀ v ∈ vars nodes p, 1 ≤ v ∧ v ≤ n)
    (hnoac : ∀ L, Inter L → Within (vars nodes p) L → SatAt nodes p L → NoAC nodes n L) :
    ∀ (items : List (List Nat × Sample)) (D : List Nat) (acc : Sample) (q : Queue),
      AccOKA nodes n t p D acc → (∀ it ∈ items, AccOKA nodes n t p it.1 it.2) →
      (D ++ (items.map Prod.fst).flatten).Nodup → (∀ d ∈ D ++ (items.map Prod.fst).flatten, d ∈ cs) →
      AccOKA nodes n t p (D ++ (items.map Prod.fst).flatten)
        (foldMerge (andMergeA (ctxOf nodes n) t p) (items.map Prod.snd) acc q).1 := by
  intro items
  induction items with
  | nil =>
    intro D acc q hacc _ _ _
    simp only [List.map_nil, List.flatten_nil, List.append_nil]
    exact hacc
  | cons it items ih =>
    intro D acc q hacc hits hnodup hsub
    simp only [List.map_cons, List.flatten_cons] at hnodup hsub ⊢
    rw [← List.append_assoc] at hnodup hsub ⊢
    unfold foldMerge
    apply ih
    · apply merge_stepA nodes n h hu t p hp cs hnd hall hrange hnoac D it.1 acc it.2 q hacc
        (hits it (List.mem_cons_self ..))
      · exact (List.nodup_append.mp hnodup).1
      · exact fun d hd => hsub d (List.mem_append_left _ hd)
    · exact fun it' hit' => hits it' (List.mem_cons_of_mem _ hit')
    · exact hnodup
    · exact hsub

theorem accOKA_nil (t p : Nat) : AccOKA nodes n t p [] {} := Or.inl ⟨rfl, rfl⟩

/-- `merge_all` on operands that are samples for pairwise disjoint lists of children -/
theorem andMergeAllA_items (h : WF nodes n) (hu : LitUnique nodes) (t : Nat) (p : Nat) (hp : p < nodes.length)
    (cs : List Nat) (hnd : nodes[p] = .and cs) (hall : ∀ c ∈ cs, count nodes c ≠ 0)
    (hrange : ∀ v ∈ vars nodes p, 1 ≤ v ∧ v ≤ n)
    (hnoac : ∀ L, Inter L → Within (vars nodes p) L → SatAt nodes p L → NoAC nodes n L)
    (items : List (List Nat × Sample)) (hits : ∀ it ∈ items, AccOKA nodes n t p it.1 it.2)
    (hnodup : ((items.map Prod.fst).flatten).Nodup) (hsub : ∀ d ∈ (items.map Prod.fst).flatten, d ∈ cs)
    (q : Queue) :
    ∃ Dfin : List Nat, Dfin.Perm (items.map Prod.fst).flatten ∧
      AccOKA nodes n t p Dfin (andMergeAllA (ctxOf nodes n) t p (items.map Prod.snd) q).1 := by
  unfold andMergeAllA
  obtain ⟨items2, hp2, hm2⟩ := perm_map_lift Prod.snd
    (sortByLenStable_perm (items.map Prod.snd)).symm items rfl
  rw [← hm2]
  have hpermF : ((items2.map Prod.fst).flatten).Perm (items.map Prod.fst).flatten :=
    (hp2.map Prod.fst).flatten
  refine ⟨(items2.map Prod.fst).flatten, hpermF, ?_⟩
  have hfin := foldMergeA_spec nodes n h hu t p hp cs hnd hall hrange hnoac items2 [] {} q
    (accOKA_nil nodes n t p)
    (fun it hit => hits it (hp2.mem_iff.mp hit))
    (by rw [List.nil_append]; exact hpermF.nodup_iff.mpr hnodup)
    (by rw [List.nil_append]; exact fun d hd => hsub d (hpermF.mem_iff.mp hd))
  rw [List.nil_append] at hfin
  exact hfin

/-- `AttributeZippingMerger::merge_all` at an and-node `p` all of whose children have models: `ds` are
the children that have a sample (pairwise different nodes), `ss` their samples -/
theorem andMergeAllA_spec (h : WF nodes n) (hu : LitUnique nodes) (t : Nat) (p : Nat) (hp : p < nodes.length)
    (cs : List Nat) (hnd : nodes[p] = .and cs) (hall : ∀ c ∈ cs, count nodes c ≠ 0)
    (hrange : ∀ v ∈ vars nodes p, 1 ≤ v ∧ v ≤ n)
    (hnoac : ∀ L, Inter L → Within (vars nodes p) L → SatAt nodes p L → NoAC nodes n L)
    (ds : List Nat) (hds : ds.Nodup) (hsub : ∀ d ∈ ds, d ∈ cs)
    (ss : List Sample) (hlen : ss.length = ds.length)
    (hss : ∀ j (hj : j < ds.length), SampleForA nodes n t p (vars nodes ds[j]) (ss[j]'(by omega))) (q : Queue) :
    (ds = [] → (andMergeAllA (ctxOf nodes n) t p ss q).1.isEmpty = true) ∧
    (ds ≠ [] → SampleForA nodes n t p (varsOf nodes ds) (andMergeAllA (ctxOf nodes n) t p ss q).1) := by
  have hsnd : ((ds.zip ss).map (fun x => ([x.1], x.2))).map Prod.snd = ss := by
    rw [List.map_map]
    exact List.map_snd_zip (by omega)
  have hfst : (((ds.zip ss).map (fun x => ([x.1], x.2))).map Prod.fst).flatten = ds := by
    rw [List.map_map]
    show ((ds.zip ss).map (fun x => [Prod.fst x])).flatten = ds
    rw [flatten_map_singleton]
    exact List.map_fst_zip (by omega)
  have hits : ∀ it ∈ (ds.zip ss).map (fun x => ([x.1], x.2)), AccOKA nodes n t p it.1 it.2 := by
    intro it hit
    rw [List.mem_map] at hit
    obtain ⟨x, hx, rfl⟩ := hit
    obtain ⟨j, hj, he⟩ := List.mem_iff_getElem.mp hx
    rw [List.getElem_zip] at he
    rw [List.length_zip] at hj
    have hj' : j < ds.length := by omega
    refine Or.inr ⟨List.cons_ne_nil _ _, ?_⟩
    have hv : varsOf nodes [x.1] = vars nodes x.1 := by simp [varsOf]
    show SampleForA nodes n t p (varsOf nodes [x.1]) x.2
    rw [hv, ← he]
    exact hss j hj'
  obtain ⟨Dfin, hperm, hacc⟩ := andMergeAllA_items nodes n h hu t p hp cs hnd hall hrange hnoac
    ((ds.zip ss).map (fun x => ([x.1], x.2))) hits (by rw [hfst]; exact hds)
    (by rw [hfst]; exact hsub) q
  rw [hsnd] at hacc
  rw [hfst] at hperm
  constructor
  · intro h0
    rw [h0] at hperm
    have hD := hperm.eq_nil
    rcases hacc with ⟨_, h2⟩ | ⟨h1, _⟩
    · exact h2
    · exact absurd hD h1
  · intro h0
    rcases hacc with ⟨h1, _⟩ | ⟨_, h2⟩
    · rw [h1] at hperm
      exact absurd hperm.symm.eq_nil h0
    · apply sampleForA_congr nodes n t p _ _ ?_ _ h2
      intro v
      rw [mem_varsOf, mem_varsOf]
      constructor
      · rintro ⟨d, hd, hv⟩; exact ⟨d, hperm.mem_iff.mp hd, hv⟩
      · rintro ⟨d, hd, hv⟩; exact ⟨d, hperm.mem_iff.mpr hd, hv⟩

/-! ### never empty (purely structural) -/

theorem andMergeA_nonempty (cx : Ctx) (t node : Nat) (l r : Sample) (q : Queue)
    (h : l.all ≠ [] ∨ r.all ≠ []) : (andMergeA cx t node l r q).1.all ≠ [] := by
  cases hl : l.isEmpty with
  | true =>
    rw [andMergeA_left_empty cx t node l r q hl]
    rcases h with h | h
    · exact absurd ((isEmpty_iff l).mp hl) h
    · exact h
  | false =>
    cases hr : r.isEmpty with
    | true =>
      rw [andMergeA_right_empty cx t node l r q hl hr]
      exact (isEmpty_false_iff l).mp hl
    | false =>
      rw [andMergeA_both cx t node l r q hl hr]
      have hz := zipSamplesA_nonempty cx.n l r q ((isEmpty_false_iff l).mp hl) ((isEmpty_false_iff r).mp hr)
      have hlen := foldCoverSorted_len cx node
        (pickInter (crossLiterals l r t (zipSamplesA l r cx.n q).1) (zipSamplesA l r cx.n q).2).1
        (zipSamplesA l r cx.n q).1
        (pickInter (crossLiterals l r t (zipSamplesA l r cx.n q).1) (zipSamplesA l r cx.n q).2).2
      rw [len_eq, len_eq] at hlen
      have hpos := List.length_pos_iff.mpr hz
      intro h0
      rw [h0, List.length_nil] at hlen
      omega

theorem foldMergeA_nonempty (cx : Ctx) (t node : Nat) : ∀ (ss : List Sample) (acc : Sample) (q : Queue),
    (acc.all ≠ [] ∨ ∃ s ∈ ss, s.all ≠ []) →
    (foldMerge (andMergeA cx t node) ss acc q).1.all ≠ [] := by
  intro ss
  induction ss with
  | nil =>
    intro acc q h
    rcases h with h | ⟨s, hs, _⟩
    · exact h
    · cases hs
  | cons s rest ih =>
    intro acc q h
    unfold foldMerge
    apply ih
    rcases h with h | ⟨s', hs', h⟩
    · exact Or.inl (andMergeA_nonempty cx t node acc s q (Or.inl h))
    · rcases List.mem_cons.mp hs' with rfl | hs''
      · exact Or.inl (andMergeA_nonempty cx t node acc s' q (Or.inr h))
      · exact Or.inr ⟨s', hs'', h⟩

/-- without any hypothesis on the samples: merging never loses all configurations -/
theorem andMergeAllA_nonempty (cx : Ctx) (t p : Nat) (ss : List Sample) (q : Queue)
    (hne : ∃ s ∈ ss, s.all ≠ []) : (andMergeAllA cx t p ss q).1.all ≠ [] := by
  unfold andMergeAllA
  apply foldMergeA_nonempty
  right
  obtain ⟨s, hs, hne⟩ := hne
  exact ⟨s, (sortByLenStable_perm ss).mem_iff.mpr hs, hne⟩

end Ddnnf.TW
