/-
  The covering strategies (`cover`, `cover_with_caching_twise`, `cover_with_caching`) keep a sample
  well formed, never lose coverage and cover what they are asked to cover.
  (Statements fixed; proofs to be filled in.)
-/
import DdnnfVerif.Proofs.TW.Comb
import DdnnfVerif.Proofs.TW.Sem
import DdnnfVerif.Proofs.TW.Sat
namespace Ddnnf.TW

variable (nodes : List NType) (n : Nat)

/-- literals a configuration check can be asked about -/
def InRangeL (n : Nat) (J : List Int) : Prop := ∀ l ∈ J, l ≠ 0 → l.natAbs ≤ n

/-- coverage is kept: whatever `s` covered, `s'` covers -/
def KeepsCover (n : Nat) (s s' : Sample) : Prop :=
  ∀ J, InRangeL n J → s.covers J = true → s'.covers J = true

theorem keepsCover_refl (s : Sample) : KeepsCover n s s := fun _ _ h => h

theorem keepsCover_trans {s1 s2 s3 : Sample} (h12 : KeepsCover n s1 s2) (h23 : KeepsCover n s2 s3) :
    KeepsCover n s1 s3 := fun J hJ h => h23 J hJ (h12 J hJ h)

/-! ### helpers -/

theorem cfgOK_of_lits_nd (c c' : Cfg) (hc : CfgOK n c) (h1 : c'.lits = c.lits) (h2 : c'.nd = c.nd) :
    CfgOK n c' := by
  refine ⟨by rw [h1]; exact hc.size, fun k hk => by rw [h1]; exact hc.slot k hk, ?_⟩
  rw [h2, decided_of_lits c c' h1]; exact hc.nd

theorem consistent_of_inter (I : List Int) (hI : Inter I) : ∀ l ∈ I, (-l) ∉ I := by
  intro l hl hnl
  have := nodup_map_inj Int.natAbs I hI.2 hl hnl (by rw [Int.natAbs_neg])
  have := hI.1 l hl
  omega

/-! ### the equations of `cover` -/

theorem cover_nil (cx : Ctx) (node : Nat) (I : List Int) (k : Nat) :
    cover cx node I [] k = ([], none) := by
  simp only [cover]

theorem cover_conflict (cx : Ctx) (node : Nat) (I : List Int) (c : Cfg) (rest : List Cfg) (k : Nat)
    (h : c.conflicts I = true) :
    cover cx node I (c :: rest) k
      = (c :: (cover cx node I rest (k + 1)).1, (cover cx node I rest (k + 1)).2) := by
  simp only [cover, h, if_true]

theorem cover_ok (cx : Ctx) (node : Nat) (I : List Int) (c : Cfg) (rest : List Cfg) (k : Nat)
    (h : c.conflicts I = false)
    (hok : (satSub cx node ((c.updateSat cx node).st.getD cx.fresh) I).2 = true) :
    cover cx node I (c :: rest) k
      = ((((c.updateSat cx node).extend I).setSat
          (satSub cx node ((c.updateSat cx node).st.getD cx.fresh) I).1) :: rest, some k) := by
  simp only [cover, h, hok, if_true, Bool.false_eq_true, if_false]

theorem cover_skip (cx : Ctx) (node : Nat) (I : List Int) (c : Cfg) (rest : List Cfg) (k : Nat)
    (h : c.conflicts I = false)
    (hok : (satSub cx node ((c.updateSat cx node).st.getD cx.fresh) I).2 = false) :
    cover cx node I (c :: rest) k
      = (c.updateSat cx node :: (cover cx node I rest (k + 1)).1, (cover cx node I rest (k + 1)).2) := by
  simp only [cover, h, hok, Bool.false_eq_true, if_false]

/-! ### one configuration -/

/-- a configuration that is only brought up to date -/
theorem cfgAt_updateSat (h : WF nodes n) (hu : LitUnique nodes) (p : Nat) (hp : p < nodes.length)
    (hc : count nodes p ≠ 0) (V : List Nat) (c : Cfg) (hcA : CfgAt nodes n p V c) :
    CfgAt nodes n p V (c.updateSat (ctxOf nodes n) p) ∧
    (c.updateSat (ctxOf nodes n) p).decided = c.decided := by
  obtain ⟨u1, u2, _⟩ := updateSat_spec nodes n h hu p hp hc c hcA.ok hcA.st hcA.noac hcA.sat
  have hd : (c.updateSat (ctxOf nodes n) p).decided = c.decided := decided_of_lits c _ u1
  refine ⟨⟨cfgOK_of_lits_nd n c _ hcA.ok u1 u2,
    stOK_updateSat nodes n h hu p hp hc c hcA.ok hcA.st hcA.noac hcA.sat, ?_, ?_, ?_, ?_⟩, hd⟩
  · rw [hd]; exact hcA.within
  · rw [hd]; exact hcA.sat
  · rw [hd]; exact hcA.noac
  · rw [hd]; exact hcA.nonempty

/-- a configuration that is extended by `I` and gets a state that is pure for all its literals -/
theorem cfgAt_extend (h : WF nodes n) (p : Nat) (V : List Nat) (hV : ∀ v ∈ V, 1 ≤ v ∧ v ≤ n)
    (c c1 : Cfg) (hcA : CfgAt nodes n p V c) (h1 : c1.lits = c.lits) (h2 : c1.nd = c.nd)
    (I : List Int) (hw : Within V I) (hII : ∀ l ∈ I, (-l) ∉ I) (hcf : c.conflicts I = false)
    (hno : NoAC nodes n I) (hsat : SatAt nodes p (c.decided ++ I))
    (m : Array Bool) (hm : SatS.IsPure nodes (negs (c.decided ++ I)) m) :
    CfgAt nodes n p V ((c1.extend I).setSat m) ∧
    ∀ x, x ∈ ((c1.extend I).setSat m).decided ↔ x ∈ c.decided ∨ x ∈ I := by
  have hok1 : CfgOK n c1 := cfgOK_of_lits_nd n c c1 hcA.ok h1 h2
  have hd1 : c1.decided = c.decided := decided_of_lits c c1 h1
  have hIr : ∀ l ∈ I, l ≠ 0 ∧ l.natAbs ≤ n := fun l hl => ⟨(hw l hl).1, (hV _ (hw l hl).2).2⟩
  have hncf : ∀ l ∈ I, (-l) ∉ c1.decided := by
    intro l hl hm'
    rw [hd1] at hm'
    have : c.conflicts I = true :=
      (conflicts_iff n c hcA.ok I (fun l hl _ => (hIr l hl).2)).mpr ⟨l, hl, (hIr l hl).1, hm'⟩
    rw [hcf] at this; cases this
  obtain ⟨e1, e2, _, _⟩ := cfgOK_extend n c1 hok1 I hIr hncf hII
  have hd' : ((c1.extend I).setSat m).decided = (c1.extend I).decided := decided_of_lits _ _ rfl
  have hmem : ∀ x, x ∈ ((c1.extend I).setSat m).decided ↔ x ∈ c.decided ∨ x ∈ I := by
    intro x; rw [hd', e2, hd1]
  have hpure : SatS.IsPure nodes (negs (c1.extend I).decided) m :=
    isPure_perm nodes h.topo (negs (c.decided ++ I)) _
      (fun x => by rw [mem_negs, mem_negs, e2, hd1, List.mem_append]) m hm
  refine ⟨⟨cfgOK_of_lits_nd n (c1.extend I) _ e1 rfl rfl, stOK_setSat nodes _ m hpure, ?_, ?_, ?_, ?_⟩, hmem⟩
  · intro l hl
    rcases (hmem l).mp hl with hl | hl
    · exact hcA.within l hl
    · exact hw l hl
  · exact (satAt_congr nodes p _ _ (fun x => by rw [hmem, List.mem_append])).mpr hsat
  · intro l hl
    rcases (hmem l).mp hl with hl | hl
    · exact hcA.noac l hl
    · exact hno l hl
  · intro hnil
    obtain ⟨x, hx⟩ := List.exists_mem_of_ne_nil _ hcA.nonempty
    have := (hmem x).mpr (Or.inl hx)
    rw [hnil] at this; cases this

/-- the configuration `cover` extends -/
theorem cfgAt_cover_ok (h : WF nodes n) (hu : LitUnique nodes) (p : Nat) (hp : p < nodes.length)
    (hc : count nodes p ≠ 0) (V : List Nat) (hV : ∀ v ∈ V, 1 ≤ v ∧ v ≤ n)
    (I : List Int) (hw : Within V I) (hII : ∀ l ∈ I, (-l) ∉ I)
    (c : Cfg) (hcA : CfgAt nodes n p V c) (hcf : c.conflicts I = false)
    (hok : (satSub (ctxOf nodes n) p
      ((c.updateSat (ctxOf nodes n) p).st.getD (ctxOf nodes n).fresh) I).2 = true) :
    CfgAt nodes n p V (((c.updateSat (ctxOf nodes n) p).extend I).setSat
      (satSub (ctxOf nodes n) p ((c.updateSat (ctxOf nodes n) p).st.getD (ctxOf nodes n).fresh) I).1) ∧
    ∀ x, x ∈ (((c.updateSat (ctxOf nodes n) p).extend I).setSat
      (satSub (ctxOf nodes n) p ((c.updateSat (ctxOf nodes n) p).st.getD (ctxOf nodes n).fresh) I).1).decided
        ↔ x ∈ c.decided ∨ x ∈ I := by
  obtain ⟨u1, u2, m0, u3, u4⟩ := updateSat_spec nodes n h hu p hp hc c hcA.ok hcA.st hcA.noac hcA.sat
  have hget : (c.updateSat (ctxOf nodes n) p).st.getD (ctxOf nodes n).fresh = m0 := by rw [u3]; rfl
  rw [hget] at hok ⊢
  obtain ⟨s1, s2⟩ := satSub_spec nodes n h hu p hp hc c.decided I (negs c.decided) m0
    (fun x => Iff.rfl) u4
  obtain ⟨hno, hsat⟩ := s1.mp hok
  exact cfgAt_extend nodes n h p V hV c _ hcA u1 u2 I hw hII hcf hno hsat _ (s2 hok)

/-! ### `cover` -/

theorem cover_spec (h : WF nodes n) (hu : LitUnique nodes) (p : Nat) (hp : p < nodes.length)
    (hc : count nodes p ≠ 0) (V : List Nat) (hV : ∀ v ∈ V, 1 ≤ v ∧ v ≤ n)
    (I : List Int) (hw : Within V I) (hII : ∀ l ∈ I, (-l) ∉ I) :
    ∀ (ps : List Cfg) (k : Nat), (∀ c ∈ ps, CfgAt nodes n p V c) →
      (∀ c ∈ (cover (ctxOf nodes n) p I ps k).1, CfgAt nodes n p V c) ∧
      (∀ c ∈ ps, ∃ c' ∈ (cover (ctxOf nodes n) p I ps k).1, ∀ x ∈ c.decided, x ∈ c'.decided) ∧
      (∀ idx, (cover (ctxOf nodes n) p I ps k).2 = some idx →
        k ≤ idx ∧ ∃ c', (cover (ctxOf nodes n) p I ps k).1[idx - k]? = some c' ∧
          ∀ l ∈ I, l ∈ c'.decided) := by
  intro ps
  induction ps with
  | nil =>
    intro k _
    rw [cover_nil]
    refine ⟨fun c hc => ?_, fun c hc => ?_, fun idx hh => ?_⟩
    · cases hc
    · cases hc
    · cases hh
  | cons c rest ih =>
    intro k hall
    have hcA := hall c (List.mem_cons_self ..)
    have hrest : ∀ c ∈ rest, CfgAt nodes n p V c := fun c hc => hall c (List.mem_cons_of_mem _ hc)
    obtain ⟨i1, i2, i3⟩ := ih (k + 1) hrest
    have tail : ∀ (c0 : Cfg), CfgAt nodes n p V c0 → (∀ x ∈ c.decided, x ∈ c0.decided) →
        (∀ x ∈ c0 :: (cover (ctxOf nodes n) p I rest (k + 1)).1, CfgAt nodes n p V x) ∧
        (∀ x ∈ c :: rest, ∃ c' ∈ c0 :: (cover (ctxOf nodes n) p I rest (k + 1)).1,
          ∀ y ∈ x.decided, y ∈ c'.decided) ∧
        (∀ idx, (cover (ctxOf nodes n) p I rest (k + 1)).2 = some idx →
          k ≤ idx ∧ ∃ c', (c0 :: (cover (ctxOf nodes n) p I rest (k + 1)).1)[idx - k]? = some c' ∧
            ∀ l ∈ I, l ∈ c'.decided) := by
      intro c0 hc0 hsub
      refine ⟨?_, ?_, ?_⟩
      · intro x hx
        rcases List.mem_cons.mp hx with rfl | hx
        · exact hc0
        · exact i1 x hx
      · intro x hx
        rcases List.mem_cons.mp hx with rfl | hx
        · exact ⟨c0, List.mem_cons_self .., hsub⟩
        · obtain ⟨c', hc', hs⟩ := i2 x hx
          exact ⟨c', List.mem_cons_of_mem _ hc', hs⟩
      · intro idx hidx
        obtain ⟨j1, c', j2, j3⟩ := i3 idx hidx
        refine ⟨by omega, c', ?_, j3⟩
        have : idx - k = (idx - (k + 1)) + 1 := by omega
        rw [this, List.getElem?_cons_succ]; exact j2
    cases hcf : c.conflicts I with
    | true =>
      rw [cover_conflict _ _ _ _ _ _ hcf]
      exact tail c hcA (fun _ hx => hx)
    | false =>
      cases hok : (satSub (ctxOf nodes n) p
          ((c.updateSat (ctxOf nodes n) p).st.getD (ctxOf nodes n).fresh) I).2 with
      | false =>
        rw [cover_skip _ _ _ _ _ _ hcf hok]
        obtain ⟨a1, a2⟩ := cfgAt_updateSat nodes n h hu p hp hc V c hcA
        exact tail _ a1 (fun x hx => by rw [a2]; exact hx)
      | true =>
        rw [cover_ok _ _ _ _ _ _ hcf hok]
        obtain ⟨a1, a2⟩ := cfgAt_cover_ok nodes n h hu p hp hc V hV I hw hII c hcA hcf hok
        refine ⟨?_, ?_, ?_⟩
        · intro x hx
          rcases List.mem_cons.mp hx with rfl | hx
          · exact a1
          · exact hrest x hx
        · intro x hx
          rcases List.mem_cons.mp hx with rfl | hx
          · exact ⟨_, List.mem_cons_self .., fun y hy => (a2 y).mpr (Or.inl hy)⟩
          · exact ⟨x, List.mem_cons_of_mem _ hx, fun _ hy => hy⟩
        · intro idx hidx
          have hk : k = idx := by
            have : some k = some idx := hidx
            exact Option.some.inj this
          subst hk
          refine ⟨Nat.le_refl _, _, ?_, fun l hl => (a2 l).mpr (Or.inr hl)⟩
          rw [Nat.sub_self]; rfl

/-! ### `promote` and `add` -/

theorem mem_swapRemove_or {α} (xs : List α) (i : Nat) (c : α) (hi : xs[i]? = some c) (x : α) :
    (x ∈ swapRemove xs i ∨ x = c) ↔ x ∈ xs := by
  obtain ⟨hlt, hget⟩ := List.getElem?_eq_some_iff.mp hi
  rw [(swapRemove_perm xs i hlt).mem_iff]
  constructor
  · rintro (hx | rfl)
    · exact List.mem_of_mem_eraseIdx hx
    · rw [← hget]; exact List.getElem_mem hlt
  · intro hx
    obtain ⟨j, hj, hjx⟩ := List.mem_iff_getElem.mp hx
    by_cases hji : j = i
    · subst hji
      exact Or.inr (by rw [← hjx, hget])
    · exact Or.inl (List.mem_eraseIdx_iff_getElem.mpr ⟨j, hj, hji, hjx⟩)

theorem promote_spec (s : Sample) (idx : Nat) (c : Cfg) (hidx : s.partials[idx]? = some c) :
    (promote s idx).vars = s.vars ∧ (∀ x, x ∈ (promote s idx).all ↔ x ∈ s.all) ∧
    (∀ x ∈ (promote s idx).complete, x ∈ s.complete ∨ (x = c ∧ c.nd = s.vars.length)) := by
  unfold promote
  rw [hidx]
  dsimp only
  by_cases hcomp : s.isComplete c = true
  · rw [if_pos hcomp]
    refine ⟨rfl, fun x => ?_, fun x hx => ?_⟩
    · unfold Sample.all
      dsimp only
      rw [List.mem_append, List.mem_append, List.mem_append, List.mem_singleton, or_assoc,
        or_comm (a := x = c), mem_swapRemove_or s.partials idx c hidx x]
    · dsimp only at hx
      rcases List.mem_append.mp hx with hx | hx
      · exact Or.inl hx
      · refine Or.inr ⟨List.mem_singleton.mp hx, ?_⟩
        unfold Sample.isComplete at hcomp
        exact eq_of_beq hcomp
  · rw [if_neg hcomp]
    exact ⟨rfl, fun _ => Iff.rfl, fun x hx => Or.inl hx⟩

theorem add_spec_sample (s : Sample) (c : Cfg) :
    (s.add c).vars = s.vars ∧ (∀ x, x ∈ (s.add c).all ↔ x ∈ s.all ∨ x = c) ∧
    (∀ x ∈ (s.add c).complete, x ∈ s.complete ∨ (x = c ∧ c.nd = s.vars.length)) := by
  unfold Sample.add
  by_cases hcomp : s.isComplete c = true
  · rw [if_pos hcomp]
    refine ⟨rfl, fun x => ?_, fun x hx => ?_⟩
    · unfold Sample.all Sample.addComplete
      dsimp only
      rw [List.mem_append, List.mem_append, List.mem_append, List.mem_singleton]
      constructor
      · rintro ((h | h) | h)
        · exact Or.inl (Or.inl h)
        · exact Or.inr h
        · exact Or.inl (Or.inr h)
      · rintro ((h | h) | h)
        · exact Or.inl (Or.inl h)
        · exact Or.inr h
        · exact Or.inl (Or.inr h)
    · unfold Sample.addComplete at hx
      dsimp only at hx
      rcases List.mem_append.mp hx with hx | hx
      · exact Or.inl hx
      · refine Or.inr ⟨List.mem_singleton.mp hx, ?_⟩
        unfold Sample.isComplete at hcomp
        exact eq_of_beq hcomp
  · rw [if_neg hcomp]
    refine ⟨rfl, fun x => ?_, fun x hx => Or.inl hx⟩
    unfold Sample.all Sample.addPartial
    dsimp only
    rw [← List.append_assoc, List.mem_append, List.mem_singleton]

/-- a sample covers every part of what it covers -/
theorem covers_subset (s : Sample) (hs : ∀ c ∈ s.all, CfgOK n c) (I J : List Int) (hI : InRangeL n I)
    (hJ : InRangeL n J) (hsub : ∀ l ∈ J, l ≠ 0 → l ∈ I) (h : s.covers I = true) : s.covers J = true := by
  unfold Sample.covers at h ⊢
  rw [List.any_eq_true] at h ⊢
  obtain ⟨c, hc, hcov⟩ := h
  refine ⟨c, hc, ?_⟩
  have hok := hs c hc
  rw [covers_iff n c hok I hI] at hcov
  rw [covers_iff n c hok J hJ]
  intro l hl h0
  exact hcov l (hsub l hl h0) h0

/-! ### the common part of the two strategies -/

/-- what both strategies do when the interaction is not covered yet (and, for `cover_with_caching`,
is a partial model) -/
def coverStep (cx : Ctx) (node : Nat) (s : Sample) (I : List Int) : Sample :=
  match cover cx node I s.partials 0 with
  | (ps, some idx) => promote { s with partials := ps } idx
  | (ps, none) =>
      ({ s with partials := ps }).add ((Cfg.ofLits I cx.n).setSat (satSub cx node cx.fresh I).1)

theorem coverTwise_eq (cx : Ctx) (node : Nat) (s : Sample) (I : List Int) :
    coverTwise cx node s I = if s.covers I then s else coverStep cx node s I := rfl

theorem coverChecked_eq (cx : Ctx) (node : Nat) (s : Sample) (I : List Int) :
    coverChecked cx node s I
      = if s.covers I then s
        else if (satSub cx node cx.fresh I).2 then coverStep cx node s I else s := by
  unfold coverChecked coverStep
  split
  · rfl
  · cases hb : (satSub cx node cx.fresh I).2
    · simp [hb]
    · simp only [hb, Bool.not_true, Bool.false_eq_true, if_false, if_true]
      rfl

theorem sample_all_ne_nil_of_covers (s : Sample) (I : List Int) (h : s.covers I = true) : s.all ≠ [] := by
  intro hnil
  unfold Sample.covers at h
  rw [hnil] at h
  cases h

/-- from the configurations of the new sample to the four statements -/
theorem finish (p : Nat) (V : List Nat) (hV : ∀ v ∈ V, 1 ≤ v ∧ v ≤ n) (s s' : Sample)
    (hs : SampleInv nodes n p V s) (I : List Int) (hw : Within V I)
    (hvars : s'.vars = s.vars) (hcfg : ∀ x ∈ s'.all, CfgAt nodes n p V x)
    (hcomp : ∀ x ∈ s'.complete, x.nd = s.vars.length)
    (hgrow : ∀ c ∈ s.all, ∃ c' ∈ s'.all, ∀ x ∈ c.decided, x ∈ c'.decided)
    (hcov : ∃ c' ∈ s'.all, ∀ l ∈ I, l ∈ c'.decided) :
    SampleInv nodes n p V s' ∧ KeepsCover n s s' ∧ s'.covers I = true ∧ s'.all ≠ [] := by
  have hcovI : s'.covers I = true := by
    obtain ⟨c', hc', hall⟩ := hcov
    unfold Sample.covers
    rw [List.any_eq_true]
    refine ⟨c', hc', ?_⟩
    rw [covers_iff n c' (hcfg c' hc').ok I (fun l hl _ => (hV _ (hw l hl).2).2)]
    exact fun l hl _ => hall l hl
  refine ⟨⟨by rw [hvars]; exact hs.vars_nodup, fun v => by rw [hvars]; exact hs.vars_mem v, hcfg,
    fun c hc => by rw [hvars]; exact hcomp c hc⟩, ?_, hcovI, sample_all_ne_nil_of_covers s' I hcovI⟩
  intro J hJ hcovJ
  unfold Sample.covers at hcovJ ⊢
  rw [List.any_eq_true] at hcovJ ⊢
  obtain ⟨c, hc, hcJ⟩ := hcovJ
  obtain ⟨c', hc', hsub⟩ := hgrow c hc
  refine ⟨c', hc', ?_⟩
  rw [covers_iff n c (hs.cfgs c hc).ok J hJ] at hcJ
  rw [covers_iff n c' (hcfg c' hc').ok J hJ]
  exact fun l hl h0 => hsub l (hcJ l hl h0)

theorem coverStep_spec (h : WF nodes n) (hu : LitUnique nodes) (p : Nat) (hp : p < nodes.length)
    (hc : count nodes p ≠ 0) (V : List Nat) (hV : ∀ v ∈ V, 1 ≤ v ∧ v ≤ n)
    (s : Sample) (hs : SampleInv nodes n p V s)
    (I : List Int) (hne : I ≠ []) (hw : Within V I) (hII : ∀ l ∈ I, (-l) ∉ I)
    (hsat : SatAt nodes p I) (hnoac : NoAC nodes n I) :
    SampleInv nodes n p V (coverStep (ctxOf nodes n) p s I) ∧
    KeepsCover n s (coverStep (ctxOf nodes n) p s I) ∧
    (coverStep (ctxOf nodes n) p s I).covers I = true ∧
    (coverStep (ctxOf nodes n) p s I).all ≠ [] := by
  have hpart : ∀ c ∈ s.partials, CfgAt nodes n p V c :=
    fun c hc => hs.cfgs c (List.mem_append_right _ hc)
  obtain ⟨i1, i2, i3⟩ := cover_spec nodes n h hu p hp hc V hV I hw hII s.partials 0 hpart
  unfold coverStep
  generalize cover (ctxOf nodes n) p I s.partials 0 = r at i1 i2 i3
  obtain ⟨ps, r⟩ := r
  dsimp only at i1 i2 i3
  -- the sample with the partial configurations replaced
  have hall1 : ∀ x ∈ ({ s with partials := ps } : Sample).all, CfgAt nodes n p V x := by
    intro x hx
    rcases List.mem_append.mp hx with hx | hx
    · exact hs.cfgs x (List.mem_append_left _ hx)
    · exact i1 x hx
  have hgrow1 : ∀ c ∈ s.all, ∃ c' ∈ ({ s with partials := ps } : Sample).all,
      ∀ x ∈ c.decided, x ∈ c'.decided := by
    intro c hc'
    rcases List.mem_append.mp hc' with hx | hx
    · exact ⟨c, List.mem_append_left _ hx, fun _ hy => hy⟩
    · obtain ⟨c', hc', hsub⟩ := i2 c hx
      exact ⟨c', List.mem_append_right _ hc', hsub⟩
  cases r with
  | some idx =>
    dsimp only
    obtain ⟨_, c', j2, j3⟩ := i3 idx rfl
    rw [Nat.sub_zero] at j2
    obtain ⟨q1, q2, q3⟩ := promote_spec ({ s with partials := ps } : Sample) idx c' j2
    have hc'mem : c' ∈ ps := List.mem_of_getElem? j2
    refine finish nodes n p V hV s _ hs I hw q1 (fun x hx => hall1 x ((q2 x).mp hx)) ?_ ?_ ?_
    · intro x hx
      rcases q3 x hx with hx' | ⟨hxe, hnd⟩
      · exact hs.complete x hx'
      · rw [hxe]; exact hnd
    · intro c hc'
      obtain ⟨c'', hc'', hsub⟩ := hgrow1 c hc'
      exact ⟨c'', (q2 c'').mpr hc'', hsub⟩
    · exact ⟨c', (q2 c').mpr (List.mem_append_right _ hc'mem), j3⟩
  | none =>
    dsimp only
    have hIr : ∀ l ∈ I, l ≠ 0 ∧ l.natAbs ≤ n := fun l hl => ⟨(hw l hl).1, (hV _ (hw l hl).2).2⟩
    obtain ⟨o1, o2, _, _⟩ := cfgOK_ofLits n I hIr hII
    obtain ⟨_, u2⟩ := satSub_update nodes n h hu p hp hc I [] (ctxOf nodes n).fresh
      (fun x hx => by cases hx) (isPure_fresh nodes n h.topo) hnoac hsat
    have hn : (ctxOf nodes n).n = n := rfl
    rw [hn]
    generalize (satSub (ctxOf nodes n) p (ctxOf nodes n).fresh I).1 = m at u2
    have hd : ((Cfg.ofLits I n).setSat m).decided = (Cfg.ofLits I n).decided := decided_of_lits _ _ rfl
    have hmem : ∀ x, x ∈ ((Cfg.ofLits I n).setSat m).decided ↔ x ∈ I := fun x => by rw [hd, o2]
    have hpure : SatS.IsPure nodes (negs (Cfg.ofLits I n).decided) m :=
      isPure_perm nodes h.topo (negs I) _ (fun x => by rw [mem_negs, mem_negs, o2]) m u2
    have hnew : CfgAt nodes n p V ((Cfg.ofLits I n).setSat m) := by
      refine ⟨cfgOK_of_lits_nd n (Cfg.ofLits I n) _ o1 rfl rfl, stOK_setSat nodes _ m hpure,
        fun l hl => hw l ((hmem l).mp hl), (satAt_congr nodes p _ _ hmem).mpr hsat,
        fun l hl => hnoac l ((hmem l).mp hl), ?_⟩
      intro hnil
      obtain ⟨x, hx⟩ := List.exists_mem_of_ne_nil _ hne
      have := (hmem x).mpr hx
      rw [hnil] at this; cases this
    obtain ⟨q1, q2, q3⟩ := add_spec_sample ({ s with partials := ps } : Sample)
      ((Cfg.ofLits I n).setSat m)
    refine finish nodes n p V hV s _ hs I hw q1 ?_ ?_ ?_ ?_
    · intro x hx
      rcases (q2 x).mp hx with hx | rfl
      · exact hall1 x hx
      · exact hnew
    · intro x hx
      rcases q3 x hx with hx' | ⟨hxe, hnd⟩
      · exact hs.complete x hx'
      · rw [hxe]; exact hnd
    · intro c hc'
      obtain ⟨c'', hc'', hsub⟩ := hgrow1 c hc'
      exact ⟨c'', (q2 c'').mpr (Or.inl hc''), hsub⟩
    · exact ⟨_, (q2 _).mpr (Or.inr rfl), fun l hl => (hmem l).mpr hl⟩

/-- `cover_with_caching_twise` for an interaction that is a partial model of the node -/
theorem coverTwise_spec (h : WF nodes n) (hu : LitUnique nodes) (p : Nat) (hp : p < nodes.length)
    (hc : count nodes p ≠ 0) (V : List Nat) (hV : ∀ v ∈ V, 1 ≤ v ∧ v ≤ n)
    (s : Sample) (hs : SampleInv nodes n p V s)
    (I : List Int) (hne : I ≠ []) (hI : Inter I) (hw : Within V I) (hsat : SatAt nodes p I)
    (hnoac : NoAC nodes n I) :
    SampleInv nodes n p V (coverTwise (ctxOf nodes n) p s I) ∧
    KeepsCover n s (coverTwise (ctxOf nodes n) p s I) ∧
    (coverTwise (ctxOf nodes n) p s I).covers I = true ∧
    (coverTwise (ctxOf nodes n) p s I).all ≠ [] := by
  rw [coverTwise_eq]
  by_cases hcov : s.covers I = true
  · rw [if_pos hcov]
    exact ⟨hs, keepsCover_refl n s, hcov, sample_all_ne_nil_of_covers s I hcov⟩
  · rw [if_neg hcov]
    exact coverStep_spec nodes n h hu p hp hc V hV s hs I hne hw (consistent_of_inter I hI) hsat hnoac

/-- `cover_with_caching` for any list of literals over `V`: it is covered afterwards if it is a
partial model of the node -/
theorem coverChecked_spec (h : WF nodes n) (hu : LitUnique nodes) (p : Nat) (hp : p < nodes.length)
    (hc : count nodes p ≠ 0) (V : List Nat) (hV : ∀ v ∈ V, 1 ≤ v ∧ v ≤ n)
    (hVp : ∀ v ∈ V, v ∈ vars nodes p)
    (s : Sample) (hs : SampleInv nodes n p V s)
    (I : List Int) (hne : I ≠ []) (hw : Within V I) :
    SampleInv nodes n p V (coverChecked (ctxOf nodes n) p s I) ∧
    KeepsCover n s (coverChecked (ctxOf nodes n) p s I) ∧
    (SatAt nodes p I → NoAC nodes n I → (coverChecked (ctxOf nodes n) p s I).covers I = true) := by
  rw [coverChecked_eq]
  by_cases hcov : s.covers I = true
  · rw [if_pos hcov]
    exact ⟨hs, keepsCover_refl n s, fun _ _ => hcov⟩
  · rw [if_neg hcov]
    obtain ⟨s1, _⟩ := satSub_spec nodes n h hu p hp hc [] I [] (ctxOf nodes n).fresh
      (fun x => Iff.rfl) (isPure_fresh nodes n h.topo)
    rw [List.nil_append] at s1
    by_cases hok : (satSub (ctxOf nodes n) p (ctxOf nodes n).fresh I).2 = true
    · rw [if_pos hok]
      obtain ⟨hnoac, hsat⟩ := s1.mp hok
      have hII : ∀ l ∈ I, (-l) ∉ I :=
        satAt_consistent nodes n h p I (fun l hl => ⟨(hw l hl).1, hVp _ (hw l hl).2⟩) hsat
      obtain ⟨r1, r2, r3, _⟩ := coverStep_spec nodes n h hu p hp hc V hV s hs I hne hw hII hsat hnoac
      exact ⟨r1, r2, fun _ _ => r3⟩
    · rw [if_neg hok]
      exact ⟨hs, keepsCover_refl n s, fun hsat hnoac => absurd (s1.mpr ⟨hnoac, hsat⟩) hok⟩

end Ddnnf.TW
