/-
  Invariants of the fitness-guided t-wise construction (`sampleTWiseAQ` in `Model/TWiseGen.lean`).
  Differences to the plain one: the cross interactions of an and-merge are taken from the `literals`
  lists of the two samples (all `k` resp. `t - k` sublists), filtered by a SAT test, so (a) the
  `literals` field matters and (b) per node only interactions of EXACTLY `t` literals are covered.
-/
import DdnnfVerif.Proofs.TW.Root
namespace Ddnnf.TW

/-- every interaction of exactly `t` literals over `V` that satisfies `Q` is inside a configuration -/
def CoversEq (t : Nat) (V : List Nat) (Q : List Int → Prop) (s : Sample) : Prop :=
  ∀ I, I.length = t → Inter I → Within V I → Q I → s.covers I = true

/-- the `literals` field: literals over `V`; every literal over `V` that satisfies `Q` on its own is listed -/
structure LitsOK (V : List Nat) (Q : List Int → Prop) (s : Sample) : Prop where
  within : Within V s.literals
  all : ∀ l : Int, l ≠ 0 → l.natAbs ∈ V → Q [l] → l ∈ s.literals

structure SampleForA (nodes : List NType) (n t : Nat) (p : Nat) (V : List Nat) (s : Sample) : Prop where
  inv : SampleInv nodes n p V s
  lits : LitsOK V (SatAt nodes p) s
  cover : CoversEq t V (SatAt nodes p) s
  nonempty : s.all ≠ []

abbrev SampleAtA (nodes : List NType) (n t : Nat) (i : Nat) (s : Sample) : Prop :=
  SampleForA nodes n t i (vars nodes i) s

/-- what is known about the result stored for node `i` (fitness-guided pass) -/
structure ResAtA (nodes : List NType) (n t : Nat) (i : Nat) (r : Res) : Prop where
  void_iff : isVoid r = true ↔ count nodes i = 0
  sample_nonempty : ∀ s, r = .sample s → s.all ≠ []
  empty_vars : r = .empty → vars nodes i = []
  sample : ∀ s, r = .sample s → Live nodes i → SampleAtA nodes n t i s

end Ddnnf.TW
