/-
  Helpers for `And.lean`: congruence of the invariants in the variable list, the structure of
  `zipSamples`, the purely structural "never empty" facts.
-/
import DdnnfVerif.Proofs.TW.Cover
namespace Ddnnf.TW

variable (nodes : List NType) (n : Nat)

/-! ### small list facts -/

theorem length_le_of_nodup_subset {α} [DecidableEq α] :
    ∀ (l ks : List α), l.Nodup → (∀ z ∈ l, z ∈ ks) → l.length ≤ ks.length := by
  intro l
  induction l with
  | nil => intro ks _ _; simp
  | cons a l ih =>
    intro ks hnd hsub
    rw [List.nodup_cons] at hnd
    have ha : a ∈ ks := hsub a (List.mem_cons_self ..)
    have := ih (ks.erase a) hnd.2 (by
      intro z hz
      have hza : z ≠ a := fun h => hnd.1 (h ▸ hz)
      exact (List.mem_erase_of_ne hza).mpr (hsub z (List.mem_cons_of_mem _ hz)))
    rw [List.length_erase_of_mem ha] at this
    have hpos := List.length_pos_of_mem ha
    simp only [List.length_cons]
    omega

theorem setOfNat_length_of_nodup (xs : List Nat) (h : xs.Nodup) : (setOfNat xs).length = xs.length :=
  ((List.perm_ext_iff_of_nodup (setOfNat_nodup xs) h).mpr (mem_setOfNat xs)).length_eq

theorem mem_zip_or_drop {α β} : ∀ (xs : List α) (ys : List β) (a : α), a ∈ xs →
    (∃ b, (a, b) ∈ xs.zip ys) ∨ a ∈ xs.drop ys.length := by
  intro xs
  induction xs with
  | nil => intro ys a ha; cases ha
  | cons x xs ih =>
    intro ys a ha
    cases ys with
    | nil => exact Or.inr (by simpa using ha)
    | cons y ys =>
      rcases List.mem_cons.mp ha with rfl | ha'
      · exact Or.inl ⟨y, by simp⟩
      · rcases ih ys a ha' with ⟨b, hb⟩ | hd
        · exact Or.inl ⟨b, by simp [hb]⟩
        · exact Or.inr (by simpa using hd)

theorem mem_zip_or_drop' {α β} : ∀ (xs : List α) (ys : List β) (b : β), b ∈ ys →
    (∃ a, (a, b) ∈ xs.zip ys) ∨ b ∈ ys.drop xs.length := by
  intro xs
  induction xs with
  | nil => intro ys b hb; exact Or.inr (by simpa using hb)
  | cons x xs ih =>
    intro ys b hb
    cases ys with
    | nil => cases hb
    | cons y ys =>
      rcases List.mem_cons.mp hb with rfl | hb'
      · exact Or.inl ⟨x, by simp⟩
      · rcases ih ys b hb' with ⟨a, ha⟩ | hd
        · exact Or.inl ⟨a, by simp [ha]⟩
        · exact Or.inr (by simpa using hd)

/-! ### congruence in the variable list -/

theorem within_mono {V V' : List Nat} (hVV : ∀ v, v ∈ V → v ∈ V') {L : List Int} (h : Within V L) :
    Within V' L := fun l hl => ⟨(h l hl).1, hVV _ (h l hl).2⟩

theorem cfgAt_mono (p : Nat) {V V' : List Nat} (hVV : ∀ v, v ∈ V → v ∈ V') {c : Cfg}
    (h : CfgAt nodes n p V c) : CfgAt nodes n p V' c :=
  ⟨h.ok, h.st, within_mono hVV h.within, h.sat, h.noac, h.nonempty⟩

theorem sampleInv_congr (p : Nat) (V V' : List Nat) (hVV : ∀ v, v ∈ V ↔ v ∈ V') (s : Sample)
    (hs : SampleInv nodes n p V s) : SampleInv nodes n p V' s :=
  ⟨hs.vars_nodup, fun v => (hs.vars_mem v).trans (hVV v),
   fun c hc => cfgAt_mono nodes n p (fun v => (hVV v).mp) (hs.cfgs c hc), hs.complete⟩

theorem covers_congr (t : Nat) (V V' : List Nat) (hVV : ∀ v, v ∈ V' → v ∈ V) (Q : List Int → Prop)
    (s : Sample) (hs : Covers t V Q s) : Covers t V' Q s :=
  fun I h1 h2 h3 h4 h5 => hs I h1 h2 h3 (within_mono hVV h4) h5

/-! ### samples: emptiness -/

theorem isEmpty_iff (s : Sample) : s.isEmpty = true ↔ s.all = [] := by
  unfold Sample.isEmpty Sample.all
  cases s.complete <;> cases s.partials <;> simp

theorem isEmpty_false_iff (s : Sample) : s.isEmpty = false ↔ s.all ≠ [] := by
  rw [Ne, ← isEmpty_iff]
  cases s.isEmpty <;> simp

theorem mem_all (s : Sample) (c : Cfg) : c ∈ s.all ↔ c ∈ s.complete ∨ c ∈ s.partials := by
  unfold Sample.all
  exact List.mem_append

theorem len_eq (s : Sample) : s.len = s.all.length := by
  unfold Sample.len Sample.all
  rw [List.length_append]

/-! ### `withFlag` -/

theorem mem_withFlag (s : Sample) (c : Cfg) (b : Bool) :
    (c, b) ∈ withFlag s ↔ (b = true ∧ c ∈ s.complete) ∨ (b = false ∧ c ∈ s.partials) := by
  unfold withFlag
  rw [List.mem_append, List.mem_map, List.mem_map]
  constructor
  · rintro (⟨a, ha, he⟩ | ⟨a, ha, he⟩)
    · injection he with h1 h2
      subst h1; subst h2
      exact Or.inl ⟨rfl, ha⟩
    · injection he with h1 h2
      subst h1; subst h2
      exact Or.inr ⟨rfl, ha⟩
  · rintro (⟨rfl, hc⟩ | ⟨rfl, hc⟩)
    · exact Or.inl ⟨c, hc, rfl⟩
    · exact Or.inr ⟨c, hc, rfl⟩

theorem withFlag_map_fst (s : Sample) : (withFlag s).map Prod.fst = s.all := by
  unfold withFlag Sample.all
  rw [List.map_append, List.map_map, List.map_map]
  congr 1
  · exact List.map_id' _
  · exact List.map_id' _

theorem withFlag_length (s : Sample) : (withFlag s).length = s.len := by
  rw [len_eq, ← withFlag_map_fst, List.length_map]

theorem mem_all_of_withFlag (s : Sample) (x : Cfg × Bool) (hx : x ∈ withFlag s) : x.1 ∈ s.all := by
  rw [← withFlag_map_fst]
  exact List.mem_map_of_mem hx

theorem exists_withFlag_of_mem_all (s : Sample) (c : Cfg) (hc : c ∈ s.all) :
    ∃ b, (c, b) ∈ withFlag s := by
  rw [← withFlag_map_fst, List.mem_map] at hc
  obtain ⟨⟨c', b⟩, hx, rfl⟩ := hc
  exact ⟨b, hx⟩

/-! ### the structure of `zipSamples` -/

/-- one round of the zipping loop -/
def zipStep (n : Nat) (s : Sample) (p : (Cfg × Bool) × (Cfg × Bool)) : Sample :=
  if p.1.2 && p.2.2 then s.addComplete (Cfg.fromDisjoint p.1.1 p.2.1 n)
  else s.add (Cfg.fromDisjoint p.1.1 p.2.1 n)

theorem zipSamples_eq (l r : Sample) :
    zipSamples l r n =
      (if l.len ≥ r.len then l.all.drop r.len else r.all.drop l.len).foldl Sample.addPartial
        (((withFlag l).zip (withFlag r)).foldl (zipStep n) (Sample.fromSamples [l, r])) := rfl

theorem zipStep_spec (s : Sample) (p : (Cfg × Bool) × (Cfg × Bool)) :
    (zipStep n s p).vars = s.vars ∧
    (∀ c, c ∈ (zipStep n s p).all ↔ c ∈ s.all ∨ c = Cfg.fromDisjoint p.1.1 p.2.1 n) ∧
    (∀ c ∈ (zipStep n s p).complete, c ∈ s.complete ∨
      (c = Cfg.fromDisjoint p.1.1 p.2.1 n ∧
        (c.nd = s.vars.length ∨ (p.1.2 = true ∧ p.2.2 = true)))) := by
  unfold zipStep
  by_cases hb : (p.1.2 && p.2.2) = true
  · rw [if_pos hb]
    rw [Bool.and_eq_true] at hb
    refine ⟨rfl, fun c => ?_, fun c hc => ?_⟩
    · simp only [Sample.addComplete, Sample.all, List.mem_append, List.mem_singleton]
      constructor
      · rintro ((h | h) | h)
        · exact Or.inl (Or.inl h)
        · exact Or.inr h
        · exact Or.inl (Or.inr h)
      · rintro ((h | h) | h)
        · exact Or.inl (Or.inl h)
        · exact Or.inr h
        · exact Or.inl (Or.inr h)
    · simp only [Sample.addComplete, List.mem_append, List.mem_singleton] at hc
      rcases hc with h | h
      · exact Or.inl h
      · exact Or.inr ⟨h, Or.inr hb⟩
  · rw [if_neg hb]
    unfold Sample.add
    by_cases hcpl : s.isComplete (Cfg.fromDisjoint p.1.1 p.2.1 n) = true
    · rw [if_pos hcpl]
      refine ⟨rfl, fun c => ?_, fun c hc => ?_⟩
      · simp only [Sample.addComplete, Sample.all, List.mem_append, List.mem_singleton]
        constructor
        · rintro ((h | h) | h)
          · exact Or.inl (Or.inl h)
          · exact Or.inr h
          · exact Or.inl (Or.inr h)
        · rintro ((h | h) | h)
          · exact Or.inl (Or.inl h)
          · exact Or.inr h
          · exact Or.inl (Or.inr h)
      · simp only [Sample.addComplete, List.mem_append, List.mem_singleton] at hc
        rcases hc with h | h
        · exact Or.inl h
        · refine Or.inr ⟨h, Or.inl ?_⟩
          unfold Sample.isComplete at hcpl
          rw [h]
          simpa using hcpl
    · rw [if_neg hcpl]
      refine ⟨rfl, fun c => ?_, fun c hc => Or.inl hc⟩
      simp only [Sample.addPartial, Sample.all, List.mem_append, List.mem_singleton]
      constructor
      · rintro (h | h | h)
        · exact Or.inl (Or.inl h)
        · exact Or.inl (Or.inr h)
        · exact Or.inr h
      · rintro ((h | h) | h)
        · exact Or.inl h
        · exact Or.inr (Or.inl h)
        · exact Or.inr (Or.inr h)

theorem zipFold_spec : ∀ (ps : List ((Cfg × Bool) × (Cfg × Bool))) (s : Sample),
    (ps.foldl (zipStep n) s).vars = s.vars ∧
    (∀ c, c ∈ (ps.foldl (zipStep n) s).all ↔
      c ∈ s.all ∨ ∃ p ∈ ps, c = Cfg.fromDisjoint p.1.1 p.2.1 n) ∧
    (∀ c ∈ (ps.foldl (zipStep n) s).complete, c ∈ s.complete ∨
      ∃ p ∈ ps, c = Cfg.fromDisjoint p.1.1 p.2.1 n ∧
        (c.nd = s.vars.length ∨ (p.1.2 = true ∧ p.2.2 = true))) := by
  intro ps
  induction ps with
  | nil =>
    intro s
    exact ⟨rfl, fun c => by simp, fun c hc => Or.inl hc⟩
  | cons p ps ih =>
    intro s
    rw [List.foldl_cons]
    obtain ⟨a1, a2, a3⟩ := zipStep_spec n s p
    obtain ⟨b1, b2, b3⟩ := ih (zipStep n s p)
    refine ⟨b1.trans a1, fun c => ?_, fun c hc => ?_⟩
    · rw [b2, a2]
      constructor
      · rintro ((h | h) | ⟨p', hp', h⟩)
        · exact Or.inl h
        · exact Or.inr ⟨p, List.mem_cons_self .., h⟩
        · exact Or.inr ⟨p', List.mem_cons_of_mem _ hp', h⟩
      · rintro (h | ⟨p', hp', h⟩)
        · exact Or.inl (Or.inl h)
        · rcases List.mem_cons.mp hp' with rfl | hp''
          · exact Or.inl (Or.inr h)
          · exact Or.inr ⟨p', hp'', h⟩
    · rcases b3 c hc with h | ⟨p', hp', h1, h2⟩
      · rcases a3 c h with h' | ⟨h1, h2⟩
        · exact Or.inl h'
        · exact Or.inr ⟨p, List.mem_cons_self .., h1, h2⟩
      · rw [a1] at h2
        exact Or.inr ⟨p', List.mem_cons_of_mem _ hp', h1, h2⟩

theorem addPartialFold_spec : ∀ (cs : List Cfg) (s : Sample),
    (cs.foldl Sample.addPartial s).vars = s.vars ∧
    (cs.foldl Sample.addPartial s).complete = s.complete ∧
    (cs.foldl Sample.addPartial s).partials = s.partials ++ cs := by
  intro cs
  induction cs with
  | nil => intro s; simp
  | cons c cs ih =>
    intro s
    rw [List.foldl_cons]
    obtain ⟨a1, a2, a3⟩ := ih (s.addPartial c)
    refine ⟨a1, a2, ?_⟩
    rw [a3]
    simp [Sample.addPartial]

/-- the configurations kept from the longer operand -/
def zipRest (l r : Sample) : List Cfg :=
  if l.len ≥ r.len then l.all.drop r.len else r.all.drop l.len

theorem zipSamples_vars (l r : Sample) : (zipSamples l r n).vars = setOfNat (l.vars ++ r.vars) := by
  rw [zipSamples_eq]
  rw [(addPartialFold_spec _ _).1, (zipFold_spec n _ _).1]
  simp [Sample.fromSamples]

theorem mem_zipSamples_all (l r : Sample) (c : Cfg) :
    c ∈ (zipSamples l r n).all ↔
      (∃ p ∈ (withFlag l).zip (withFlag r), c = Cfg.fromDisjoint p.1.1 p.2.1 n) ∨ c ∈ zipRest l r := by
  rw [zipSamples_eq]
  obtain ⟨_, a2, a3⟩ := addPartialFold_spec (if l.len ≥ r.len then l.all.drop r.len else r.all.drop l.len)
    (((withFlag l).zip (withFlag r)).foldl (zipStep n) (Sample.fromSamples [l, r]))
  have b2 := (zipFold_spec n ((withFlag l).zip (withFlag r)) (Sample.fromSamples [l, r])).2.1 c
  rw [mem_all, a2, a3, List.mem_append, ← or_assoc, ← mem_all, b2]
  unfold zipRest
  simp [Sample.fromSamples, Sample.all]

theorem mem_zipSamples_complete (l r : Sample) (c : Cfg) (hc : c ∈ (zipSamples l r n).complete) :
    ∃ p ∈ (withFlag l).zip (withFlag r), c = Cfg.fromDisjoint p.1.1 p.2.1 n ∧
      (c.nd = (zipSamples l r n).vars.length ∨ (p.1.2 = true ∧ p.2.2 = true)) := by
  have hv := zipSamples_vars n l r
  rw [zipSamples_eq] at hc hv
  rw [(addPartialFold_spec _ _).2.1] at hc
  rw [(addPartialFold_spec _ _).1] at hv
  rcases (zipFold_spec n ((withFlag l).zip (withFlag r)) (Sample.fromSamples [l, r])).2.2 c hc with h | h
  · simp [Sample.fromSamples] at h
  · obtain ⟨p, hp, h1, h2⟩ := h
    refine ⟨p, hp, h1, ?_⟩
    rw [zipSamples_vars]
    rw [(zipFold_spec n _ _).1] at hv
    rw [← hv]
    exact h2

theorem zipRest_sub (l r : Sample) (c : Cfg) (hc : c ∈ zipRest l r) : c ∈ l.all ∨ c ∈ r.all := by
  unfold zipRest at hc
  split at hc
  · exact Or.inl (List.mem_of_mem_drop hc)
  · exact Or.inr (List.mem_of_mem_drop hc)

/-- every configuration of the left operand survives, alone or inside a pair -/
theorem zip_left (l r : Sample) (a : Cfg) (ha : a ∈ l.all) :
    a ∈ zipRest l r ∨ ∃ p ∈ (withFlag l).zip (withFlag r), p.1.1 = a := by
  obtain ⟨f, hf⟩ := exists_withFlag_of_mem_all l a ha
  rcases mem_zip_or_drop (withFlag l) (withFlag r) (a, f) hf with ⟨b, hb⟩ | hd
  · exact Or.inr ⟨((a, f), b), hb, rfl⟩
  · left
    have hm : a ∈ ((withFlag l).drop (withFlag r).length).map Prod.fst := List.mem_map_of_mem hd
    rw [List.map_drop, withFlag_map_fst, withFlag_length] at hm
    unfold zipRest
    have hlt : r.len < l.len := by
      apply Classical.byContradiction
      intro hge
      rw [List.drop_eq_nil_of_le (by rw [← len_eq]; omega)] at hm
      cases hm
    rw [if_pos (by omega)]
    exact hm

theorem zip_right (l r : Sample) (b : Cfg) (hb : b ∈ r.all) :
    b ∈ zipRest l r ∨ ∃ p ∈ (withFlag l).zip (withFlag r), p.2.1 = b := by
  obtain ⟨f, hf⟩ := exists_withFlag_of_mem_all r b hb
  rcases mem_zip_or_drop' (withFlag l) (withFlag r) (b, f) hf with ⟨a, ha⟩ | hd
  · exact Or.inr ⟨(a, (b, f)), ha, rfl⟩
  · left
    have hm : b ∈ ((withFlag r).drop (withFlag l).length).map Prod.fst := List.mem_map_of_mem hd
    rw [List.map_drop, withFlag_map_fst, withFlag_length] at hm
    unfold zipRest
    have hlt : l.len < r.len := by
      apply Classical.byContradiction
      intro hge
      rw [List.drop_eq_nil_of_le (by rw [← len_eq]; omega)] at hm
      cases hm
    rw [if_neg (by omega)]
    exact hm

theorem zipSamples_nonempty (l r : Sample) (hl : l.all ≠ []) (hr : r.all ≠ []) :
    (zipSamples l r n).all ≠ [] := by
  have h1 : withFlag l ≠ [] := fun h => hl (by rw [← withFlag_map_fst, h]; rfl)
  have h2 : withFlag r ≠ [] := fun h => hr (by rw [← withFlag_map_fst, h]; rfl)
  obtain ⟨x, xs, hx⟩ := List.exists_cons_of_ne_nil h1
  obtain ⟨y, ys, hy⟩ := List.exists_cons_of_ne_nil h2
  have : Cfg.fromDisjoint x.1 y.1 n ∈ (zipSamples l r n).all := by
    rw [mem_zipSamples_all]
    exact Or.inl ⟨(x, y), by rw [hx, hy]; simp, rfl⟩
  exact List.ne_nil_of_mem this

/-! ### `zipSamples` of two samples over independent variable sets -/

/-- a pair of configurations over independent variable sets -/
theorem cfgAt_fromDisjoint (p : Nat) (V1 V2 : List Nat) (hind : Indep nodes p V1 V2) (a b : Cfg)
    (ha : CfgAt nodes n p V1 a) (hb : CfgAt nodes n p V2 b) :
    CfgAt nodes n p (V1 ++ V2) (Cfg.fromDisjoint a b n) ∧
    (∀ x, x ∈ (Cfg.fromDisjoint a b n).decided ↔ x ∈ a.decided ∨ x ∈ b.decided) ∧
    (Cfg.fromDisjoint a b n).nd = a.nd + b.nd := by
  have hdis : ∀ x ∈ a.decided, ∀ y ∈ b.decided, x.natAbs ≠ y.natAbs := by
    intro x hx y hy he
    exact hind.1 _ (ha.within x hx).2 (he ▸ (hb.within y hy).2)
  obtain ⟨h1, h2, h3, _, _⟩ := cfgOK_fromDisjoint n a b ha.ok hb.ok hdis
  refine ⟨⟨h1, stOK_fromDisjoint nodes n a b ha.ok hb.ok hdis ha.st hb.st, ?_, ?_, ?_, ?_⟩, h2, h3⟩
  · intro x hx
    rcases (h2 x).mp hx with h | h
    · exact ⟨(ha.within x h).1, List.mem_append_left _ (ha.within x h).2⟩
    · exact ⟨(hb.within x h).1, List.mem_append_right _ (hb.within x h).2⟩
  · exact (satAt_congr nodes p _ (a.decided ++ b.decided)
      (fun x => by rw [h2, List.mem_append])).mpr (hind.2 _ _ ha.within hb.within ha.sat hb.sat)
  · intro x hx
    rcases (h2 x).mp hx with h | h
    · exact ha.noac x h
    · exact hb.noac x h
  · obtain ⟨x, xs, hx⟩ := List.exists_cons_of_ne_nil ha.nonempty
    have : x ∈ (Cfg.fromDisjoint a b n).decided :=
      (h2 x).mpr (Or.inl (by rw [hx]; exact List.mem_cons_self ..))
    exact List.ne_nil_of_mem this

theorem zipSamples_inv (p : Nat) (V1 V2 : List Nat) (hind : Indep nodes p V1 V2) (l r : Sample)
    (hl : SampleInv nodes n p V1 l) (hr : SampleInv nodes n p V2 r) :
    SampleInv nodes n p (V1 ++ V2) (zipSamples l r n) := by
  have hnd : (l.vars ++ r.vars).Nodup := by
    rw [List.nodup_append]
    exact ⟨hl.vars_nodup, hr.vars_nodup, fun a ha b hb hab =>
      hind.1 a ((hl.vars_mem a).mp ha) (hab ▸ (hr.vars_mem b).mp hb)⟩
  refine ⟨?_, ?_, ?_, ?_⟩
  · rw [zipSamples_vars]; exact setOfNat_nodup _
  · intro v
    rw [zipSamples_vars, mem_setOfNat, List.mem_append, List.mem_append, hl.vars_mem, hr.vars_mem]
  · intro c hc
    rw [mem_zipSamples_all] at hc
    rcases hc with ⟨q, hq, rfl⟩ | hc
    · have hq' := List.of_mem_zip (a := q.1) (b := q.2) hq
      exact (cfgAt_fromDisjoint nodes n p V1 V2 hind q.1.1 q.2.1
        (hl.cfgs _ (mem_all_of_withFlag l q.1 hq'.1)) (hr.cfgs _ (mem_all_of_withFlag r q.2 hq'.2))).1
    · rcases zipRest_sub l r c hc with h | h
      · exact cfgAt_mono nodes n p (fun v hv => List.mem_append_left _ hv) (hl.cfgs c h)
      · exact cfgAt_mono nodes n p (fun v hv => List.mem_append_right _ hv) (hr.cfgs c h)
  · intro c hc
    obtain ⟨q, hq, he, hor⟩ := mem_zipSamples_complete n l r c hc
    rcases hor with h | ⟨f1, f2⟩
    · exact h
    · have hq' := List.of_mem_zip (a := q.1) (b := q.2) hq
      have m1 : q.1.1 ∈ l.complete := by
        have := (mem_withFlag l q.1.1 q.1.2).mp hq'.1
        rcases this with ⟨_, h⟩ | ⟨h, _⟩
        · exact h
        · rw [f1] at h; cases h
      have m2 : q.2.1 ∈ r.complete := by
        have := (mem_withFlag r q.2.1 q.2.2).mp hq'.2
        rcases this with ⟨_, h⟩ | ⟨h, _⟩
        · exact h
        · rw [f2] at h; cases h
      have hnd' := (cfgAt_fromDisjoint nodes n p V1 V2 hind q.1.1 q.2.1
        (hl.cfgs _ (mem_all_of_withFlag l q.1 hq'.1)) (hr.cfgs _ (mem_all_of_withFlag r q.2 hq'.2))).2.2
      rw [he, hnd', hl.complete _ m1, hr.complete _ m2, zipSamples_vars,
        setOfNat_length_of_nodup _ hnd, List.length_append]

/-- configurations only grow: coverage is kept -/
theorem keepsCover_of_grow (s s' : Sample) (hs : ∀ c ∈ s.all, CfgOK n c)
    (h : ∀ a ∈ s.all, ∃ c ∈ s'.all, CfgOK n c ∧ ∀ x ∈ a.decided, x ∈ c.decided) :
    KeepsCover n s s' := by
  intro J hJ hcov
  unfold Sample.covers at hcov ⊢
  rw [List.any_eq_true] at hcov ⊢
  obtain ⟨a, ha, hac⟩ := hcov
  obtain ⟨c, hc, hok, hsub⟩ := h a ha
  refine ⟨c, hc, ?_⟩
  rw [covers_iff n c hok J hJ]
  rw [covers_iff n a (hs a ha) J hJ] at hac
  exact fun x hx h0 => hsub x (hac x hx h0)

theorem zipSamples_keeps (p : Nat) (V1 V2 : List Nat) (hind : Indep nodes p V1 V2) (l r : Sample)
    (hl : SampleInv nodes n p V1 l) (hr : SampleInv nodes n p V2 r) :
    KeepsCover n l (zipSamples l r n) ∧ KeepsCover n r (zipSamples l r n) := by
  have hpair : ∀ q ∈ (withFlag l).zip (withFlag r),
      Cfg.fromDisjoint q.1.1 q.2.1 n ∈ (zipSamples l r n).all ∧
      CfgOK n (Cfg.fromDisjoint q.1.1 q.2.1 n) ∧
      ∀ x, x ∈ (Cfg.fromDisjoint q.1.1 q.2.1 n).decided ↔ x ∈ q.1.1.decided ∨ x ∈ q.2.1.decided := by
    intro q hq
    have hq' := List.of_mem_zip (a := q.1) (b := q.2) hq
    obtain ⟨c1, c2, _⟩ := cfgAt_fromDisjoint nodes n p V1 V2 hind q.1.1 q.2.1
      (hl.cfgs _ (mem_all_of_withFlag l q.1 hq'.1)) (hr.cfgs _ (mem_all_of_withFlag r q.2 hq'.2))
    exact ⟨(mem_zipSamples_all n l r _).mpr (Or.inl ⟨q, hq, rfl⟩), c1.ok, c2⟩
  constructor
  · apply keepsCover_of_grow n l _ (fun c hc => (hl.cfgs c hc).ok)
    intro a ha
    rcases zip_left l r a ha with h | ⟨q, hq, rfl⟩
    · exact ⟨a, (mem_zipSamples_all n l r a).mpr (Or.inr h), (hl.cfgs a ha).ok, fun x hx => hx⟩
    · obtain ⟨k1, k2, k3⟩ := hpair q hq
      exact ⟨_, k1, k2, fun x hx => (k3 x).mpr (Or.inl hx)⟩
  · apply keepsCover_of_grow n r _ (fun c hc => (hr.cfgs c hc).ok)
    intro b hb
    rcases zip_right l r b hb with h | ⟨q, hq, rfl⟩
    · exact ⟨b, (mem_zipSamples_all n l r b).mpr (Or.inr h), (hr.cfgs b hb).ok, fun x hx => hx⟩
    · obtain ⟨k1, k2, k3⟩ := hpair q hq
      exact ⟨_, k1, k2, fun x hx => (k3 x).mpr (Or.inr hx)⟩

/-! ### never empty (purely structural) -/

theorem cover_length (cx : Ctx) (node : Nat) (I : List Int) : ∀ (ps : List Cfg) (k : Nat),
    (cover cx node I ps k).1.length = ps.length := by
  intro ps
  induction ps with
  | nil => intro k; rfl
  | cons c rest ih =>
    intro k
    unfold cover
    by_cases hcf : c.conflicts I = true
    · rw [if_pos hcf]
      simp only [List.length_cons]
      rw [ih (k + 1)]
    · rw [if_neg hcf]
      by_cases hok : (satSub cx node ((c.updateSat cx node).st.getD cx.fresh) I).2 = true
      · simp only [hok, if_true, List.length_cons]
      · simp only [hok, Bool.false_eq_true, if_false, List.length_cons]
        rw [ih (k + 1)]

theorem promote_nonempty (s : Sample) (idx : Nat) (hs : s.all ≠ []) : (promote s idx).all ≠ [] := by
  unfold promote
  split
  · exact hs
  · split
    · simp [Sample.all]
    · exact hs

theorem add_nonempty (s : Sample) (c : Cfg) : (s.add c).all ≠ [] := by
  unfold Sample.add
  split <;> simp [Sample.all, Sample.addComplete, Sample.addPartial]

theorem coverTwise_nonempty (cx : Ctx) (node : Nat) (s : Sample) (I : List Int) (hs : s.all ≠ []) :
    (coverTwise cx node s I).all ≠ [] := by
  unfold coverTwise
  split
  · exact hs
  · have hlen := cover_length cx node I s.partials 0
    split
    · rename_i ps idx heq
      apply promote_nonempty
      rw [heq] at hlen
      simp only at hlen
      intro h
      apply hs
      simp only [Sample.all, List.append_eq_nil_iff] at h ⊢
      refine ⟨h.1, ?_⟩
      have : ps = [] := h.2
      rw [this] at hlen
      exact List.eq_nil_of_length_eq_zero hlen.symm
    · exact add_nonempty _ _

theorem coverFold_nonempty (cx : Ctx) (node : Nat) : ∀ (ord : List (List Int)) (s : Sample),
    s.all ≠ [] → (ord.foldl (coverTwise cx node) s).all ≠ [] := by
  intro ord
  induction ord with
  | nil => intro s hs; exact hs
  | cons X ord ih =>
    intro s hs
    rw [List.foldl_cons]
    exact ih _ (coverTwise_nonempty cx node s X hs)

theorem andMerge_left_empty (cx : Ctx) (t node : Nat) (l r : Sample) (q : Queue)
    (hl : l.isEmpty = true) : andMerge cx t node l r q = (r, q) := by
  unfold andMerge
  rw [if_pos hl]

theorem andMerge_right_empty (cx : Ctx) (t node : Nat) (l r : Sample) (q : Queue)
    (hl : l.isEmpty = false) (hr : r.isEmpty = true) : andMerge cx t node l r q = (l, q) := by
  unfold andMerge
  rw [if_neg (by rw [hl]; exact Bool.false_ne_true), if_pos hr]

theorem andMerge_both (cx : Ctx) (t node : Nat) (l r : Sample) (q : Queue)
    (hl : l.isEmpty = false) (hr : r.isEmpty = false) :
    andMerge cx t node l r q =
      ((pickInter (crossInteractions l r t) q).1.foldl (coverTwise cx node) (zipSamples l r cx.n),
       (pickInter (crossInteractions l r t) q).2) := by
  unfold andMerge
  rw [if_neg (by rw [hl]; exact Bool.false_ne_true), if_neg (by rw [hr]; exact Bool.false_ne_true)]

theorem andMerge_nonempty (cx : Ctx) (t node : Nat) (l r : Sample) (q : Queue)
    (h : l.all ≠ [] ∨ r.all ≠ []) : (andMerge cx t node l r q).1.all ≠ [] := by
  cases hl : l.isEmpty with
  | true =>
    rw [andMerge_left_empty cx t node l r q hl]
    rcases h with h | h
    · exact absurd ((isEmpty_iff l).mp hl) h
    · exact h
  | false =>
    cases hr : r.isEmpty with
    | true =>
      rw [andMerge_right_empty cx t node l r q hl hr]
      exact (isEmpty_false_iff l).mp hl
    | false =>
      rw [andMerge_both cx t node l r q hl hr]
      exact coverFold_nonempty cx node _ _
        (zipSamples_nonempty cx.n l r ((isEmpty_false_iff l).mp hl) ((isEmpty_false_iff r).mp hr))

theorem foldMerge_nonempty (cx : Ctx) (t node : Nat) : ∀ (ss : List Sample) (acc : Sample) (q : Queue),
    (acc.all ≠ [] ∨ ∃ s ∈ ss, s.all ≠ []) →
    (foldMerge (andMerge cx t node) ss acc q).1.all ≠ [] := by
  intro ss
  induction ss with
  | nil =>
    intro acc q h
    rcases h with h | ⟨s, hs, _⟩
    · exact h
    · cases hs
  | cons s rest ih =>
    intro acc q h
    unfold foldMerge
    apply ih
    rcases h with h | ⟨s', hs', h⟩
    · exact Or.inl (andMerge_nonempty cx t node acc s q (Or.inl h))
    · rcases List.mem_cons.mp hs' with rfl | hs''
      · exact Or.inl (andMerge_nonempty cx t node acc s' q (Or.inr h))
      · exact Or.inr ⟨s', hs'', h⟩

theorem andMergeAll_eq (cx : Ctx) (t node : Nat) (ss : List Sample) (q : Queue) :
    andMergeAll cx t node ss q =
      foldMerge (andMerge cx t node)
        (pickSorted (ss.filter (fun s => !(s.len ≤ 1)) ++
          [(foldMerge (andMerge cx t node) (ss.filter fun s => s.len ≤ 1) {} q).1])
          (foldMerge (andMerge cx t node) (ss.filter fun s => s.len ≤ 1) {} q).2).1 {}
        (pickSorted (ss.filter (fun s => !(s.len ≤ 1)) ++
          [(foldMerge (andMerge cx t node) (ss.filter fun s => s.len ≤ 1) {} q).1])
          (foldMerge (andMerge cx t node) (ss.filter fun s => s.len ≤ 1) {} q).2).2 := rfl

/-! ### lifting a permutation through `map` -/

theorem perm_map_lift {α β} (f : α → β) : ∀ {L L' : List β}, L.Perm L' →
    ∀ ps : List α, ps.map f = L → ∃ ps' : List α, ps'.Perm ps ∧ ps'.map f = L' := by
  intro L L' h
  induction h with
  | nil => intro ps hps; exact ⟨ps, List.Perm.refl _, hps⟩
  | cons x _ ih =>
    intro ps hps
    cases ps with
    | nil => cases hps
    | cons a ps =>
      rw [List.map_cons] at hps
      injection hps with h1 h2
      obtain ⟨ps', hp, hm⟩ := ih ps h2
      exact ⟨a :: ps', hp.cons a, by rw [List.map_cons, h1, hm]⟩
  | swap x y l =>
    intro ps hps
    cases ps with
    | nil => cases hps
    | cons a ps =>
      cases ps with
      | nil => cases hps
      | cons b ps =>
        rw [List.map_cons, List.map_cons] at hps
        injection hps with h1 h2
        injection h2 with h2 h3
        exact ⟨b :: a :: ps, List.Perm.swap a b ps, by rw [List.map_cons, List.map_cons, h1, h2, h3]⟩
  | trans _ _ ih1 ih2 =>
    intro ps hps
    obtain ⟨ps1, hp1, hm1⟩ := ih1 ps hps
    obtain ⟨ps2, hp2, hm2⟩ := ih2 ps1 hm1
    exact ⟨ps2, hp2.trans hp1, hm2⟩

end Ddnnf.TW
