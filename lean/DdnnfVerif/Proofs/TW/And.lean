/-
  And-nodes: zipping two samples over independent variable sets and covering the cross
  interactions gives a sample for the union; `merge_all` in any admissible order gives a sample for
  all children.
-/
import DdnnfVerif.Proofs.TW.Cover
import DdnnfVerif.Proofs.TW.AndAux
namespace Ddnnf.TW

variable (nodes : List NType) (n : Nat)

theorem sampleFor_congr' (t p : Nat) (V V' : List Nat) (hVV : ∀ v, v ∈ V ↔ v ∈ V') (s : Sample)
    (hs : SampleFor nodes n t p V s) : SampleFor nodes n t p V' s :=
  ⟨sampleInv_congr nodes n p V V' hVV s hs.inv,
   covers_congr t V V' (fun v => (hVV v).mpr) _ s hs.cover, hs.nonempty⟩

/-! ### the fold over the cross interactions -/

theorem coverFold_spec (h : WF nodes n) (hu : LitUnique nodes) (p : Nat) (hp : p < nodes.length)
    (hc : count nodes p ≠ 0) (V : List Nat) (hV : ∀ v ∈ V, 1 ≤ v ∧ v ≤ n) :
    ∀ (ord : List (List Int)) (s : Sample), SampleInv nodes n p V s → s.all ≠ [] →
      (∀ X ∈ ord, X ≠ [] ∧ Inter X ∧ Within V X ∧ SatAt nodes p X ∧ NoAC nodes n X) →
      SampleInv nodes n p V (ord.foldl (coverTwise (ctxOf nodes n) p) s) ∧
      KeepsCover n s (ord.foldl (coverTwise (ctxOf nodes n) p) s) ∧
      (∀ X ∈ ord, (ord.foldl (coverTwise (ctxOf nodes n) p) s).covers X = true) ∧
      (ord.foldl (coverTwise (ctxOf nodes n) p) s).all ≠ [] := by
  intro ord
  induction ord with
  | nil =>
    intro s hs hne _
    exact ⟨hs, keepsCover_refl n s, fun X hX => (by cases hX), hne⟩
  | cons X ord ih =>
    intro s hs hne hall
    rw [List.foldl_cons]
    obtain ⟨x1, x2, x3, x4, x5⟩ := hall X (List.mem_cons_self ..)
    obtain ⟨i1, k1, c1, ne1⟩ := coverTwise_spec nodes n h hu p hp hc V hV s hs X x1 x2 x3 x4 x5
    obtain ⟨i2, k2, c2, ne2⟩ := ih _ i1 ne1 (fun Y hY => hall Y (List.mem_cons_of_mem _ hY))
    refine ⟨i2, keepsCover_trans n k1 k2, fun Y hY => ?_, ne2⟩
    rcases List.mem_cons.mp hY with rfl | hY'
    · exact k2 Y (fun l hl _ => (hV _ (x3 l hl).2).2) c1
    · exact c2 Y hY'

/-! ### the cross interactions are partial models -/

theorem selfK_elem (p : Nat) (V : List Nat) (s : Sample) (hs : SampleInv nodes n p V s)
    (hne : s.all ≠ []) (k : Nat) (hk : 1 ≤ k) (a : List Int) (ha : a ∈ selfK s k) :
    a ≠ [] ∧ Inter a ∧ Within V a ∧ SatAt nodes p a ∧ NoAC nodes n a := by
  obtain ⟨c, hc, hat⟩ := (mem_selfK s k a hne).mp ha
  have hC := hs.cfgs c hc
  have hmem := mem_of_mem_tIter hat
  obtain ⟨hsub, hlen⟩ := (mem_tIter _ _ _).mp hat
  have hdl : 1 ≤ c.decided.length := by
    cases hd : c.decided with
    | nil => exact absurd hd hC.nonempty
    | cons _ _ => simp
  refine ⟨?_, ⟨fun l hl => (hC.within l (hmem l hl)).1, ?_⟩, fun l hl => hC.within l (hmem l hl),
    satAt_mono nodes p a c.decided hmem hC.sat, fun l hl => hC.noac l (hmem l hl)⟩
  · intro h0
    rw [h0, List.length_nil] at hlen
    omega
  · have h1 : (a.reverse.map Int.natAbs).Nodup :=
      (hsub.map Int.natAbs).nodup (decided_inter n c hC.ok).2
    rw [List.map_reverse] at h1
    exact (List.reverse_perm _).nodup_iff.mp h1

theorem cross_elem (t p : Nat) (V1 V2 : List Nat) (hind : Indep nodes p V1 V2) (s1 s2 : Sample)
    (h1 : SampleInv nodes n p V1 s1) (h2 : SampleInv nodes n p V2 s2)
    (hne1 : s1.all ≠ []) (hne2 : s2.all ≠ []) (X : List Int) (hX : X ∈ crossInteractions s1 s2 t) :
    X ≠ [] ∧ Inter X ∧ Within (V1 ++ V2) X ∧ SatAt nodes p X ∧ NoAC nodes n X := by
  obtain ⟨k, hk1, hkt, a, ha, b, hb, rfl⟩ := (mem_crossInteractions s1 s2 t X).mp hX
  obtain ⟨a1, a2, a3, a4, a5⟩ := selfK_elem nodes n p V1 s1 h1 hne1 k hk1 a ha
  obtain ⟨_, b2, b3, b4, b5⟩ := selfK_elem nodes n p V2 s2 h2 hne2 (t - k) (by omega) b hb
  refine ⟨?_, ⟨?_, ?_⟩, ?_, hind.2 a b a3 b3 a4 b4, ?_⟩
  · intro h0
    exact a1 (List.append_eq_nil_iff.mp h0).1
  · intro l hl
    rcases List.mem_append.mp hl with h | h
    · exact a2.1 l h
    · exact b2.1 l h
  · rw [List.map_append, List.nodup_append]
    refine ⟨a2.2, b2.2, ?_⟩
    intro x hx y hy hxy
    rw [List.mem_map] at hx hy
    obtain ⟨l1, hl1, rfl⟩ := hx
    obtain ⟨l2, hl2, rfl⟩ := hy
    exact hind.1 _ (a3 l1 hl1).2 (hxy ▸ (b3 l2 hl2).2)
  · intro l hl
    rcases List.mem_append.mp hl with h | h
    · exact ⟨(a3 l h).1, List.mem_append_left _ (a3 l h).2⟩
    · exact ⟨(b3 l h).1, List.mem_append_right _ (b3 l h).2⟩
  · intro l hl
    rcases List.mem_append.mp hl with h | h
    · exact a5 l h
    · exact b5 l h

theorem filter_length_add {α} (f : α → Bool) (l : List α) :
    (l.filter f).length + (l.filter (fun x => !f x)).length = l.length := by
  rw [← List.length_append]
  exact (List.filter_append_perm f l).length_eq

/-- the part of an interaction that lies inside a configuration of a sample is inside one of the
enumerated interactions of size `k` -/
theorem exists_selfK_superset (p : Nat) (V : List Nat) (s : Sample) (hs : SampleInv nodes n p V s)
    (hne : s.all ≠ []) (hV : ∀ v ∈ V, 1 ≤ v ∧ v ≤ n) (J : List Int) (hJ : Inter J) (hW : Within V J)
    (hcov : s.covers J = true) (k : Nat) (hk : J.length ≤ k) :
    ∃ a ∈ selfK s k, ∀ x ∈ J, x ∈ a := by
  unfold Sample.covers at hcov
  rw [List.any_eq_true] at hcov
  obtain ⟨c, hc, hcc⟩ := hcov
  have hC := hs.cfgs c hc
  rw [covers_iff n c hC.ok J (fun l hl _ => (hV _ (hW l hl).2).2)] at hcc
  have hsub : ∀ x ∈ J, x ∈ c.decided := fun x hx => hcc x hx (hJ.1 x hx)
  have hnd : J.Nodup := nodup_of_map_nodup Int.natAbs J hJ.2
  have hle : J.length ≤ c.decided.length := length_le_of_nodup_subset J c.decided hnd hsub
  obtain ⟨a, ha, hsup⟩ := exists_tIter_superset c.decided J hnd hsub (min c.decided.length k)
    (by omega) (by omega)
  exact ⟨a, (mem_selfK s k a hne).mpr ⟨c, hc, ha⟩, hsup⟩

/-- `ZippingMerger::merge` of two non-empty samples over independent variable sets -/
theorem andMerge_spec (h : WF nodes n) (hu : LitUnique nodes) (t : Nat) (p : Nat) (hp : p < nodes.length)
    (hc : count nodes p ≠ 0) (V1 V2 : List Nat) (hV1 : ∀ v ∈ V1, 1 ≤ v ∧ v ≤ n) (hV2 : ∀ v ∈ V2, 1 ≤ v ∧ v ≤ n)
    (hind : Indep nodes p V1 V2)
    (s1 s2 : Sample) (h1 : SampleFor nodes n t p V1 s1) (h2 : SampleFor nodes n t p V2 s2) (q : Queue) :
    SampleFor nodes n t p (V1 ++ V2) (andMerge (ctxOf nodes n) t p s1 s2 q).1 := by
  have hne1 := h1.nonempty
  have hne2 := h2.nonempty
  rw [andMerge_both (ctxOf nodes n) t p s1 s2 q ((isEmpty_false_iff s1).mpr hne1)
    ((isEmpty_false_iff s2).mpr hne2)]
  show SampleFor nodes n t p (V1 ++ V2)
    ((pickInter (crossInteractions s1 s2 t) q).1.foldl (coverTwise (ctxOf nodes n) p) (zipSamples s1 s2 n))
  have hV : ∀ v ∈ V1 ++ V2, 1 ≤ v ∧ v ≤ n := by
    intro v hv
    rcases List.mem_append.mp hv with h | h
    · exact hV1 v h
    · exact hV2 v h
  have hZ := zipSamples_inv nodes n p V1 V2 hind s1 s2 h1.inv h2.inv
  obtain ⟨kZ1, kZ2⟩ := zipSamples_keeps nodes n p V1 V2 hind s1 s2 h1.inv h2.inv
  have hZne := zipSamples_nonempty n s1 s2 hne1 hne2
  obtain ⟨iR, kR, cR, neR⟩ := coverFold_spec nodes n h hu p hp hc (V1 ++ V2) hV
    (pickInter (crossInteractions s1 s2 t) q).1 (zipSamples s1 s2 n) hZ hZne
    (fun X hX => cross_elem nodes n t p V1 V2 hind s1 s2 h1.inv h2.inv hne1 hne2 X
      ((pickInter_mem _ q X).mp hX))
  refine ⟨iR, ?_, neR⟩
  intro I hIne hIlen hInter hW hsat
  have hIr : InRangeL n I := fun l hl _ => (hV _ (hW l hl).2).2
  -- facts about the parts of `I`
  have hpart : ∀ J : List Int, J.Sublist I → Inter J ∧ SatAt nodes p J ∧ J.length ≤ t := by
    intro J hJ
    refine ⟨⟨fun l hl => hInter.1 l (hJ.subset hl), (hJ.map Int.natAbs).nodup hInter.2⟩,
      satAt_mono nodes p J I (fun x hx => hJ.subset hx) hsat, ?_⟩
    have := hJ.length_le
    omega
  have hsplit := filter_length_add (fun l : Int => decide (l.natAbs ∈ V1)) I
  generalize hI1 : I.filter (fun l : Int => decide (l.natAbs ∈ V1)) = I1 at hsplit
  generalize hI2 : I.filter (fun l : Int => !decide (l.natAbs ∈ V1)) = I2 at hsplit
  have hs1 : I1.Sublist I := hI1 ▸ List.filter_sublist
  have hs2 : I2.Sublist I := hI2 ▸ List.filter_sublist
  have hm1 : ∀ l, l ∈ I1 ↔ l ∈ I ∧ l.natAbs ∈ V1 := by
    intro l; rw [← hI1, List.mem_filter]; simp
  have hm2 : ∀ l, l ∈ I2 ↔ l ∈ I ∧ l.natAbs ∉ V1 := by
    intro l; rw [← hI2, List.mem_filter]; simp
  have hW1 : Within V1 I1 := fun l hl => ⟨hInter.1 l ((hm1 l).mp hl).1, ((hm1 l).mp hl).2⟩
  have hW2 : Within V2 I2 := by
    intro l hl
    obtain ⟨hlI, hn1⟩ := (hm2 l).mp hl
    refine ⟨hInter.1 l hlI, ?_⟩
    rcases List.mem_append.mp (hW l hlI).2 with h | h
    · exact absurd h hn1
    · exact h
  obtain ⟨p1a, p1b, p1c⟩ := hpart I1 hs1
  obtain ⟨p2a, p2b, p2c⟩ := hpart I2 hs2
  by_cases he2 : I2 = []
  · -- everything over `V1`
    have hWI : Within V1 I := by
      intro l hl
      refine ⟨hInter.1 l hl, ?_⟩
      apply Classical.byContradiction
      intro hn
      have : l ∈ I2 := (hm2 l).mpr ⟨hl, hn⟩
      rw [he2] at this
      cases this
    exact kR I hIr (kZ1 I hIr (h1.cover I hIne hIlen hInter hWI hsat))
  by_cases he1 : I1 = []
  · have hWI : Within V2 I := by
      intro l hl
      refine ⟨hInter.1 l hl, ?_⟩
      rcases List.mem_append.mp (hW l hl).2 with h | h
      · have : l ∈ I1 := (hm1 l).mpr ⟨hl, h⟩
        rw [he1] at this
        cases this
      · exact h
    exact kR I hIr (kZ2 I hIr (h2.cover I hIne hIlen hInter hWI hsat))
  -- both parts non-empty
  have hl1 : 1 ≤ I1.length := List.length_pos_iff.mpr he1
  have hl2 : 1 ≤ I2.length := List.length_pos_iff.mpr he2
  have hcov1 := h1.cover I1 he1 p1c p1a hW1 p1b
  have hcov2 := h2.cover I2 he2 p2c p2a hW2 p2b
  obtain ⟨a, ha, hsa⟩ := exists_selfK_superset nodes n p V1 s1 h1.inv hne1 hV1 I1 p1a hW1 hcov1
    I1.length (Nat.le_refl _)
  obtain ⟨b, hb, hsb⟩ := exists_selfK_superset nodes n p V2 s2 h2.inv hne2 hV2 I2 p2a hW2 hcov2
    (t - I1.length) (by omega)
  have hX : a ++ b ∈ crossInteractions s1 s2 t :=
    (mem_crossInteractions s1 s2 t (a ++ b)).mpr ⟨I1.length, hl1, by omega, a, ha, b, hb, rfl⟩
  have hXc := cR (a ++ b) ((pickInter_mem _ q _).mpr hX)
  obtain ⟨_, _, xW, _, _⟩ := cross_elem nodes n t p V1 V2 hind s1 s2 h1.inv h2.inv hne1 hne2 _ hX
  apply covers_subset n _ (fun c hc => (iR.cfgs c hc).ok) (a ++ b) I
    (fun l hl _ => (hV _ (xW l hl).2).2) hIr ?_ hXc
  intro l hl _
  by_cases hv : l.natAbs ∈ V1
  · exact List.mem_append_left _ (hsa l ((hm1 l).mpr ⟨hl, hv⟩))
  · exact List.mem_append_right _ (hsb l ((hm2 l).mpr ⟨hl, hv⟩))

/-! ### `merge_all` -/

/-- the accumulator of `merge_all` (and every operand): nothing merged yet, or a sample for the
children `D` merged so far -/
def AccOK (t p : Nat) (D : List Nat) (s : Sample) : Prop :=
  (D = [] ∧ s.isEmpty = true) ∨ (D ≠ [] ∧ SampleFor nodes n t p (varsOf nodes D) s)

theorem varsOf_append (D1 D2 : List Nat) : varsOf nodes (D1 ++ D2) = varsOf nodes D1 ++ varsOf nodes D2 := by
  unfold varsOf
  rw [List.map_append, List.flatten_append]

theorem count_ne_of_sampleFor (t p : Nat) (V : List Nat) (s : Sample) (hs : SampleFor nodes n t p V s) :
    count nodes p ≠ 0 := by
  obtain ⟨c, cs', hc⟩ := List.exists_cons_of_ne_nil hs.nonempty
  have := hs.inv.cfgs c (by rw [hc]; exact List.mem_cons_self ..)
  exact satAt_count nodes p _ this.sat

theorem accOK_empty_iff (t p : Nat) (D : List Nat) (s : Sample) (hs : AccOK nodes n t p D s) :
    (s.isEmpty = true → D = []) ∧ (s.isEmpty = false → D ≠ [] ∧ SampleFor nodes n t p (varsOf nodes D) s) := by
  rcases hs with ⟨h1, h2⟩ | ⟨h1, h2⟩
  · exact ⟨fun _ => h1, fun h => by rw [h2] at h; cases h⟩
  · refine ⟨fun h => ?_, fun _ => ⟨h1, h2⟩⟩
    exact absurd ((isEmpty_iff s).mp h) h2.nonempty

theorem merge_step (h : WF nodes n) (hu : LitUnique nodes) (t : Nat) (p : Nat) (hp : p < nodes.length)
    (cs : List Nat) (hnd : nodes[p] = .and cs) (hall : ∀ c ∈ cs, count nodes c ≠ 0)
    (hrange : ∀ v ∈ vars nodes p, 1 ≤ v ∧ v ≤ n)
    (D Ds : List Nat) (acc s : Sample) (q : Queue)
    (hacc : AccOK nodes n t p D acc) (hs : AccOK nodes n t p Ds s)
    (hnodup : (D ++ Ds).Nodup) (hsub : ∀ d ∈ D ++ Ds, d ∈ cs) :
    AccOK nodes n t p (D ++ Ds) (andMerge (ctxOf nodes n) t p acc s q).1 := by
  obtain ⟨a1, a2⟩ := accOK_empty_iff nodes n t p D acc hacc
  obtain ⟨b1, b2⟩ := accOK_empty_iff nodes n t p Ds s hs
  cases ha : acc.isEmpty with
  | true =>
    rw [andMerge_left_empty _ t p acc s q ha, a1 ha, List.nil_append]
    exact hs
  | false =>
    cases hb : s.isEmpty with
    | true =>
      rw [andMerge_right_empty _ t p acc s q ha hb, b1 hb, List.append_nil]
      exact hacc
    | false =>
      obtain ⟨hD, hA⟩ := a2 ha
      obtain ⟨_, hS⟩ := b2 hb
      have hVr : ∀ E : List Nat, (∀ d ∈ E, d ∈ cs) → ∀ v ∈ varsOf nodes E, 1 ≤ v ∧ v ≤ n := by
        intro E hE v hv
        apply hrange
        rw [vars_and nodes h.topo p hp cs hnd, mem_varsOf]
        obtain ⟨d, hd, hvd⟩ := (mem_varsOf nodes E v).mp hv
        exact ⟨d, hE d hd, hvd⟩
      refine Or.inr ⟨fun h0 => hD (List.append_eq_nil_iff.mp h0).1, ?_⟩
      rw [varsOf_append]
      exact andMerge_spec nodes n h hu t p hp (count_ne_of_sampleFor nodes n t p _ acc hA) _ _
        (hVr D (fun d hd => hsub d (List.mem_append_left _ hd)))
        (hVr Ds (fun d hd => hsub d (List.mem_append_right _ hd)))
        (indep_of_children nodes n h p hp cs hnd hall D Ds hnodup hsub) acc s hA hS q

theorem foldMerge_spec (h : WF nodes n) (hu : LitUnique nodes) (t : Nat) (p : Nat) (hp : p < nodes.length)
    (cs : List Nat) (hnd : nodes[p] = .and cs) (hall : ∀ c ∈ cs, count nodes c ≠ 0)
    (hrange : ∀ v ∈ vars nodes p, 1 ≤ v ∧ v ≤ n) :
    ∀ (items : List (List Nat × Sample)) (D : List Nat) (acc : Sample) (q : Queue),
      AccOK nodes n t p D acc → (∀ it ∈ items, AccOK nodes n t p it.1 it.2) →
      (D ++ (items.map Prod.fst).flatten).Nodup → (∀ d ∈ D ++ (items.map Prod.fst).flatten, d ∈ cs) →
      AccOK nodes n t p (D ++ (items.map Prod.fst).flatten)
        (foldMerge (andMerge (ctxOf nodes n) t p) (items.map Prod.snd) acc q).1 := by
  intro items
  induction items with
  | nil =>
    intro D acc q hacc _ _ _
    simp only [List.map_nil, List.flatten_nil, List.append_nil]
    exact hacc
  | cons it items ih =>
    intro D acc q hacc hits hnodup hsub
    simp only [List.map_cons, List.flatten_cons] at hnodup hsub ⊢
    rw [← List.append_assoc] at hnodup hsub ⊢
    unfold foldMerge
    apply ih
    · apply merge_step nodes n h hu t p hp cs hnd hall hrange D it.1 acc it.2 q hacc
        (hits it (List.mem_cons_self ..))
      · exact (List.nodup_append.mp hnodup).1
      · exact fun d hd => hsub d (List.mem_append_left _ hd)
    · exact fun it' hit' => hits it' (List.mem_cons_of_mem _ hit')
    · exact hnodup
    · exact hsub

theorem accOK_nil (t p : Nat) : AccOK nodes n t p [] {} := Or.inl ⟨rfl, rfl⟩

/-- `merge_all` on operands that are samples for pairwise disjoint lists of children -/
theorem andMergeAll_items (h : WF nodes n) (hu : LitUnique nodes) (t : Nat) (p : Nat) (hp : p < nodes.length)
    (cs : List Nat) (hnd : nodes[p] = .and cs) (hall : ∀ c ∈ cs, count nodes c ≠ 0)
    (hrange : ∀ v ∈ vars nodes p, 1 ≤ v ∧ v ≤ n)
    (items : List (List Nat × Sample)) (hits : ∀ it ∈ items, AccOK nodes n t p it.1 it.2)
    (hnodup : ((items.map Prod.fst).flatten).Nodup) (hsub : ∀ d ∈ (items.map Prod.fst).flatten, d ∈ cs)
    (q : Queue) :
    ∃ Dfin : List Nat, Dfin.Perm (items.map Prod.fst).flatten ∧
      AccOK nodes n t p Dfin (andMergeAll (ctxOf nodes n) t p (items.map Prod.snd) q).1 := by
  rw [andMergeAll_eq]
  -- the two groups
  have hS : (items.map Prod.snd).filter (fun s => decide (s.len ≤ 1))
      = (items.filter ((fun s : Sample => decide (s.len ≤ 1)) ∘ Prod.snd)).map Prod.snd := List.filter_map
  have hO : (items.map Prod.snd).filter (fun s => !decide (s.len ≤ 1))
      = (items.filter (fun x => !((fun s : Sample => decide (s.len ≤ 1)) ∘ Prod.snd) x)).map Prod.snd :=
    List.filter_map
  rw [hS, hO]
  generalize hiS : items.filter ((fun s : Sample => decide (s.len ≤ 1)) ∘ Prod.snd) = itemsS
  generalize hiO : items.filter (fun x => !((fun s : Sample => decide (s.len ≤ 1)) ∘ Prod.snd) x) = itemsO
  have hperm0 : (itemsS ++ itemsO).Perm items := by
    rw [← hiS, ← hiO]
    exact List.filter_append_perm _ items
  have hpermD : ((itemsS.map Prod.fst).flatten ++ (itemsO.map Prod.fst).flatten).Perm
      (items.map Prod.fst).flatten := by
    rw [← List.flatten_append, ← List.map_append]
    exact (hperm0.map Prod.fst).flatten
  have hnd2 := hpermD.nodup_iff.mpr hnodup
  have hsub2 : ∀ d ∈ (itemsS.map Prod.fst).flatten ++ (itemsO.map Prod.fst).flatten, d ∈ cs :=
    fun d hd => hsub d (hpermD.mem_iff.mp hd)
  -- the fold over the small samples
  have hsingle := foldMerge_spec nodes n h hu t p hp cs hnd hall hrange itemsS [] {} q
    (accOK_nil nodes n t p) (fun it hit => hits it (hperm0.mem_iff.mp (List.mem_append_left _ hit)))
    (by rw [List.nil_append]; exact (List.nodup_append.mp hnd2).1)
    (by rw [List.nil_append]; exact fun d hd => hsub2 d (List.mem_append_left _ hd))
  rw [List.nil_append] at hsingle
  generalize foldMerge (andMerge (ctxOf nodes n) t p) (itemsS.map Prod.snd) {} q = r1 at hsingle ⊢
  -- the sorted operands
  have hmap1 : (itemsO ++ [((itemsS.map Prod.fst).flatten, r1.1)]).map Prod.snd
      = itemsO.map Prod.snd ++ [r1.1] := by
    rw [List.map_append]; rfl
  obtain ⟨items2, hp2, hm2⟩ := perm_map_lift Prod.snd
    (pickSorted_perm (itemsO.map Prod.snd ++ [r1.1]) r1.2).symm
    (itemsO ++ [((itemsS.map Prod.fst).flatten, r1.1)]) hmap1
  rw [← hm2]
  have hpermF : ((items2.map Prod.fst).flatten).Perm (items.map Prod.fst).flatten := by
    refine ((hp2.map Prod.fst).flatten).trans ?_
    rw [List.map_append, List.flatten_append]
    simp only [List.map_cons, List.map_nil, List.flatten_cons, List.flatten_nil, List.append_nil]
    exact List.perm_append_comm.trans hpermD
  refine ⟨(items2.map Prod.fst).flatten, hpermF, ?_⟩
  have hfin := foldMerge_spec nodes n h hu t p hp cs hnd hall hrange items2 [] {}
    (pickSorted (itemsO.map Prod.snd ++ [r1.1]) r1.2).2
    (accOK_nil nodes n t p)
    (fun it hit => by
      rcases List.mem_append.mp (hp2.mem_iff.mp hit) with h' | h'
      · exact hits it (hperm0.mem_iff.mp (List.mem_append_right _ h'))
      · rw [List.mem_singleton] at h'
        rw [h']
        exact hsingle)
    (by rw [List.nil_append]; exact hpermF.nodup_iff.mpr hnodup)
    (by rw [List.nil_append]; exact fun d hd => hsub d (hpermF.mem_iff.mp hd))
  rw [List.nil_append] at hfin
  exact hfin

theorem flatten_map_singleton {α β} (f : α → β) (l : List α) :
    (l.map (fun x => [f x])).flatten = l.map f := by
  induction l with
  | nil => rfl
  | cons a l ih => rw [List.map_cons, List.flatten_cons, ih]; rfl

/-- `ZippingMerger::merge_all` at an and-node `p` all of whose children have models: `ds` are the
children that have a sample (pairwise different nodes), `ss` their samples -/
theorem andMergeAll_spec (h : WF nodes n) (hu : LitUnique nodes) (t : Nat) (p : Nat) (hp : p < nodes.length)
    (cs : List Nat) (hnd : nodes[p] = .and cs) (hall : ∀ c ∈ cs, count nodes c ≠ 0)
    (hrange : ∀ v ∈ vars nodes p, 1 ≤ v ∧ v ≤ n)
    (ds : List Nat) (hds : ds.Nodup) (hsub : ∀ d ∈ ds, d ∈ cs)
    (ss : List Sample) (hlen : ss.length = ds.length)
    (hss : ∀ j (hj : j < ds.length), SampleFor nodes n t p (vars nodes ds[j]) (ss[j]'(by omega))) (q : Queue) :
    (ds = [] → (andMergeAll (ctxOf nodes n) t p ss q).1.isEmpty = true) ∧
    (ds ≠ [] → SampleFor nodes n t p (varsOf nodes ds) (andMergeAll (ctxOf nodes n) t p ss q).1) := by
  have hsnd : ((ds.zip ss).map (fun x => ([x.1], x.2))).map Prod.snd = ss := by
    rw [List.map_map]
    exact List.map_snd_zip (by omega)
  have hfst : (((ds.zip ss).map (fun x => ([x.1], x.2))).map Prod.fst).flatten = ds := by
    rw [List.map_map]
    show ((ds.zip ss).map (fun x => [Prod.fst x])).flatten = ds
    rw [flatten_map_singleton]
    exact List.map_fst_zip (by omega)
  have hits : ∀ it ∈ (ds.zip ss).map (fun x => ([x.1], x.2)), AccOK nodes n t p it.1 it.2 := by
    intro it hit
    rw [List.mem_map] at hit
    obtain ⟨x, hx, rfl⟩ := hit
    obtain ⟨j, hj, he⟩ := List.mem_iff_getElem.mp hx
    rw [List.getElem_zip] at he
    rw [List.length_zip] at hj
    have hj' : j < ds.length := by omega
    refine Or.inr ⟨List.cons_ne_nil _ _, ?_⟩
    have hv : varsOf nodes [x.1] = vars nodes x.1 := by simp [varsOf]
    show SampleFor nodes n t p (varsOf nodes [x.1]) x.2
    rw [hv, ← he]
    exact hss j hj'
  obtain ⟨Dfin, hperm, hacc⟩ := andMergeAll_items nodes n h hu t p hp cs hnd hall hrange
    ((ds.zip ss).map (fun x => ([x.1], x.2))) hits (by rw [hfst]; exact hds)
    (by rw [hfst]; exact hsub) q
  rw [hsnd] at hacc
  rw [hfst] at hperm
  constructor
  · intro h0
    rw [h0] at hperm
    have hD := hperm.eq_nil
    rcases hacc with ⟨_, h2⟩ | ⟨h1, _⟩
    · exact h2
    · exact absurd hD h1
  · intro h0
    rcases hacc with ⟨h1, _⟩ | ⟨_, h2⟩
    · rw [h1] at hperm
      exact absurd hperm.symm.eq_nil h0
    · apply sampleFor_congr' nodes n t p _ _ ?_ _ h2
      intro v
      rw [mem_varsOf, mem_varsOf]
      constructor
      · rintro ⟨d, hd, hv⟩; exact ⟨d, hperm.mem_iff.mp hd, hv⟩
      · rintro ⟨d, hd, hv⟩; exact ⟨d, hperm.mem_iff.mpr hd, hv⟩

/-- without any hypothesis on the samples: merging never loses all configurations -/
theorem andMergeAll_nonempty (cx : Ctx) (t p : Nat) (ss : List Sample) (q : Queue)
    (hne : ∃ s ∈ ss, s.all ≠ []) : (andMergeAll cx t p ss q).1.all ≠ [] := by
  rw [andMergeAll_eq]
  apply foldMerge_nonempty
  right
  obtain ⟨s, hs, hne⟩ := hne
  have hperm := pickSorted_perm (ss.filter (fun s => !(s.len ≤ 1)) ++
    [(foldMerge (andMerge cx t p) (ss.filter fun s => s.len ≤ 1) {} q).1])
    (foldMerge (andMerge cx t p) (ss.filter fun s => s.len ≤ 1) {} q).2
  by_cases hl : s.len ≤ 1
  · refine ⟨_, hperm.mem_iff.mpr (List.mem_append_right _ (List.mem_singleton.mpr rfl)), ?_⟩
    apply foldMerge_nonempty
    exact Or.inr ⟨s, List.mem_filter.mpr ⟨hs, by simpa using hl⟩, hne⟩
  · exact ⟨s, hperm.mem_iff.mpr (List.mem_append_left _
      (List.mem_filter.mpr ⟨hs, by simpa using hl⟩)), hne⟩

/-- only the members of `V` matter -/
theorem sampleFor_congr (t p : Nat) (V V' : List Nat) (hVV : ∀ v, v ∈ V ↔ v ∈ V') (s : Sample)
    (hs : SampleFor nodes n t p V s) : SampleFor nodes n t p V' s :=
  sampleFor_congr' nodes n t p V V' hVV s hs

end Ddnnf.TW
