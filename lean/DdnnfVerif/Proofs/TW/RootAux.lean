/-
  Helper lemmas for `Root.lean`: configurations that decide every feature, one step of
  `complete_partial_configs`, `trim_sample`.
-/
import DdnnfVerif.Proofs.TW.Nodes
namespace Ddnnf.TW.Root

variable (nodes : List NType) (n : Nat)

/-! ### generic list facts -/

theorem length_le_of_nodup_subset {α} [DecidableEq α] : ∀ (l₁ l₂ : List α), l₁.Nodup →
    (∀ x ∈ l₁, x ∈ l₂) → l₁.length ≤ l₂.length
  | [], _, _, _ => Nat.zero_le _
  | a :: l, l₂, hnd, hsub => by
    rw [List.nodup_cons] at hnd
    have ha : a ∈ l₂ := hsub a (List.mem_cons_self ..)
    have ih := length_le_of_nodup_subset l (l₂.erase a) hnd.2 (fun x hx => by
      have hne : x ≠ a := fun h => hnd.1 (h ▸ hx)
      exact (List.mem_erase_of_ne hne).mpr (hsub x (List.mem_cons_of_mem _ hx)))
    rw [List.length_erase_of_mem ha] at ih
    have : 0 < l₂.length := List.length_pos_of_mem ha
    simp only [List.length_cons]
    omega

theorem length_eq_of_nodup_same {α} (l₁ l₂ : List α) (h1 : l₁.Nodup) (h2 : l₂.Nodup)
    (h : ∀ x, x ∈ l₁ ↔ x ∈ l₂) : l₁.length = l₂.length :=
  ((List.perm_ext_iff_of_nodup h1 h2).mpr h).length_eq

/-! ### the root -/

theorem root_lt (h : WF nodes n) : rootIx nodes < nodes.length := by
  have := h.nonempty
  unfold rootIx
  have : nodes.length ≠ 0 := fun h0 => this (List.length_eq_zero_iff.mp h0)
  omega

theorem vars_root_length (h : WF nodes n) : (vars nodes (rootIx nodes)).length = n := by
  have := h.rootComplete.length_eq
  simpa using this

/-! ### configurations that decide every feature -/

theorem allDec_spec (c : Cfg) (hc : CfgOK n c) (hall : ∀ k, k < n → c.lits.getD k 0 ≠ 0) :
    c.lits.toList = c.decided ∧ Complete n c.decided := by
  have h1 : c.lits.toList = c.decided := by
    unfold Cfg.decided
    symm
    rw [List.filter_eq_self]
    intro a ha
    rw [Array.mem_toList_iff, Array.mem_iff_getElem] at ha
    obtain ⟨k, hk, rfl⟩ := ha
    have := hall k (hc.size ▸ hk)
    rw [getD_of_lt _ _ hk] at this
    simpa using this
  refine ⟨h1, ?_, fun l hl => (decided_range n c hc l hl).1⟩
  rw [← h1]
  have : c.lits.toList.map Int.natAbs = (List.range n).map (· + 1) := by
    apply List.ext_getElem
    · simp [hc.size]
    · intro k h1 h2
      simp only [List.getElem_map, List.getElem_range, Array.getElem_toList]
      have hk : k < n := by simpa using h2
      have hk' : k < c.lits.size := by rw [hc.size]; exact hk
      have hs := hc.slot k hk
      have hn := hall k hk
      rw [getD_of_lt _ _ hk'] at hs hn
      rcases hs with hs | hs
      · exact absurd hs hn
      · exact hs
  rw [this]

theorem allDec_of_mem (c : Cfg) (hc : CfgOK n c)
    (hall : ∀ v, 1 ≤ v → v ≤ n → ∃ l ∈ c.decided, l.natAbs = v) :
    ∀ k, k < n → c.lits.getD k 0 ≠ 0 := by
  intro k hk
  obtain ⟨l, hl, hlv⟩ := hall (k + 1) (by omega) (by omega)
  have := (mem_decided_char n c hc l).mp hl
  have e : l.natAbs - 1 = k := by omega
  rw [e] at this
  rw [this.2.2]
  exact this.1

theorem allDec_of_length (c : Cfg) (hc : CfgOK n c) (hlen : c.decided.length = n) :
    ∀ k, k < n → c.lits.getD k 0 ≠ 0 := by
  intro k hk
  have hk' : k < c.lits.size := by rw [hc.size]; exact hk
  have h1 : (c.lits.toList.filter (· != 0)).length = c.lits.toList.length := by
    show c.decided.length = _
    rw [hlen, Array.length_toList, hc.size]
  rw [List.length_filter_eq_length_iff] at h1
  have := h1 c.lits[k] (by rw [Array.mem_toList_iff]; exact Array.getElem_mem hk')
  rw [getD_of_lt _ _ hk']
  simpa using this

/-! ### one step of `complete_partial_configs` -/

/-- at the root a partial model can be extended by one of the two literals of every feature -/
theorem satAt_root_flip (h : WF nodes n) (hu : LitUnique nodes) (hpos : 0 < count nodes (rootIx nodes))
    (L : List Int) (l : Int) (hl0 : l ≠ 0) (hln : l.natAbs ≤ n)
    (hsat : SatAt nodes (rootIx nodes) L)
    (hnot : ¬ (NoAC nodes n [l] ∧ SatAt nodes (rootIx nodes) (L ++ [l]))) :
    SatAt nodes (rootIx nodes) (L ++ [-l]) := by
  rw [satAt_iff_models] at hsat
  obtain ⟨m, hm, hallm⟩ := hsat
  have hcm := root_models_complete nodes n h m hm
  have hneg : -l ∈ m := by
    rcases hcm.mem_or hl0 hln with h1 | h1
    · exfalso
      apply hnot
      have hs : SatAt nodes (rootIx nodes) (L ++ [l]) := by
        rw [satAt_iff_models]
        refine ⟨m, hm, fun x hx hmem => ?_⟩
        rcases List.mem_append.mp hmem with h2 | h2
        · exact hallm x hx h2
        · rw [List.mem_singleton] at h2
          have : x = -l := by omega
          exact hcm.not_both h1 (this ▸ hx)
      refine ⟨?_, hs⟩
      intro l' hl' hcore
      rw [List.mem_singleton] at hl'
      subst hl'
      have hx := ((coreOf_exact nodes n h (pdLeaf_of_WF nodes n h hu) hpos (-l')).mp hcore).2.2 m hm
      exact hcm.not_both h1 hx
    · exact h1
  rw [satAt_iff_models]
  refine ⟨m, hm, fun x hx hmem => ?_⟩
  rcases List.mem_append.mp hmem with h2 | h2
  · exact hallm x hx h2
  · rw [List.mem_singleton] at h2
    have : x = l := by omega
    exact hcm.not_both (this ▸ hx) hneg

def completeStep (cx : Ctx) (root : Nat) (c : Cfg) (v : Nat) : Cfg :=
  if c.has (v : Int) || c.has (-(v : Int)) then c
  else
    let c1 := c.updateSat cx root
    if (satSub cx (rootIx cx.nodes) (c1.st.getD cx.fresh) [(v : Int)]).2 then c1.add (v : Int)
    else c1.add (-(v : Int))

theorem completeCfg_eq (cx : Ctx) (root : Nat) (c : Cfg) :
    completeCfg cx root c = ((List.range cx.n).map (· + 1)).foldl (completeStep cx root) c := rfl

/-- adding a literal that keeps the configuration a partial model of the root -/
theorem add_cfgAt (h : WF nodes n) (hu : LitUnique nodes) (hpos : 0 < count nodes (rootIx nodes))
    (c c1 : Cfg) (hc : CfgAt nodes n (rootIx nodes) (vars nodes (rootIx nodes)) c)
    (hok1 : CfgOK n c1) (hdec : c1.decided = c.decided) (m : Array Bool) (hst : c1.st = some m)
    (hpure : SatS.IsPure nodes (negs c.decided) m)
    (l : Int) (hl0 : l ≠ 0) (hln : l.natAbs ≤ n) (hcons : (-l) ∉ c.decided)
    (hsat : SatAt nodes (rootIx nodes) (c.decided ++ [l])) :
    CfgAt nodes n (rootIx nodes) (vars nodes (rootIx nodes)) (c1.add l) ∧
    (∀ x ∈ c.decided, x ∈ (c1.add l).decided) ∧ l ∈ (c1.add l).decided := by
  obtain ⟨a1, a2, a3, a4, _, _⟩ := add_spec n c1 hok1 l hl0 hln (by rw [hdec]; exact hcons)
  have hmem : ∀ x, x ∈ (c1.add l).decided ↔ x ∈ c.decided ++ [l] := by
    intro x
    rw [a2, hdec, List.mem_append, List.mem_singleton]
  have hw : Within (vars nodes (rootIx nodes)) (c1.add l).decided := by
    intro x hx
    rcases List.mem_append.mp ((hmem x).mp hx) with h1 | h1
    · exact hc.within x h1
    · rw [List.mem_singleton] at h1
      subst h1
      refine ⟨hl0, (mem_vars_root nodes n h _).mpr ⟨?_, hln⟩⟩
      have : x.natAbs ≠ 0 := fun h0 => hl0 (Int.natAbs_eq_zero.mp h0)
      omega
  have hs : SatAt nodes (rootIx nodes) (c1.add l).decided :=
    (satAt_congr nodes _ _ _ hmem).mpr hsat
  refine ⟨⟨a1, ?_, hw, hs, noAC_of_satAt_root nodes n h hu hpos _ hw hs, ?_⟩, ?_, ?_⟩
  · unfold StOK
    rw [a3, hst]
    refine ⟨negs c.decided, fun x hx => ?_, hpure, fun hh => by rw [a4] at hh; cases hh⟩
    rw [mem_negs] at hx ⊢
    exact (hmem _).mpr (List.mem_append_left _ hx)
  · intro he
    have := (hmem l).mpr (List.mem_append_right _ (List.mem_singleton.mpr rfl))
    rw [he] at this
    cases this
  · intro x hx
    exact (hmem x).mpr (List.mem_append_left _ hx)
  · exact (hmem l).mpr (List.mem_append_right _ (List.mem_singleton.mpr rfl))

theorem completeStep_spec (h : WF nodes n) (hu : LitUnique nodes) (hpos : 0 < count nodes (rootIx nodes))
    (c : Cfg) (hc : CfgAt nodes n (rootIx nodes) (vars nodes (rootIx nodes)) c)
    (v : Nat) (hv1 : 1 ≤ v) (hvn : v ≤ n) :
    CfgAt nodes n (rootIx nodes) (vars nodes (rootIx nodes))
      (completeStep (ctxOf nodes n) (rootIx nodes) c v) ∧
    (∀ x ∈ c.decided, x ∈ (completeStep (ctxOf nodes n) (rootIx nodes) c v).decided) ∧
    ∃ l ∈ (completeStep (ctxOf nodes n) (rootIx nodes) c v).decided, l.natAbs = v := by
  have hroot := root_lt nodes n h
  have hcount : count nodes (rootIx nodes) ≠ 0 := by omega
  have hv0 : (v : Int) ≠ 0 := by omega
  have hnv0 : -(v : Int) ≠ 0 := by omega
  have hva : (v : Int).natAbs = v := Int.natAbs_natCast v
  have hnva : (-(v : Int)).natAbs = v := by rw [Int.natAbs_neg]; exact hva
  unfold completeStep
  by_cases hhas : (c.has (v : Int) || c.has (-(v : Int))) = true
  · rw [if_pos hhas]
    refine ⟨hc, fun _ hx => hx, ?_⟩
    rcases Bool.or_eq_true _ _ ▸ hhas with h1 | h1
    · exact ⟨v, (mem_decided_iff n c hc.ok _ hv0 (by omega)).mpr h1, hva⟩
    · exact ⟨-(v : Int), (mem_decided_iff n c hc.ok _ hnv0 (by omega)).mpr h1, hnva⟩
  · rw [if_neg hhas]
    have hh1 : (v : Int) ∉ c.decided := fun hm =>
      hhas (by rw [(mem_decided_iff n c hc.ok _ hv0 (by omega)).mp hm]; rfl)
    have hh2 : -(v : Int) ∉ c.decided := fun hm =>
      hhas (by rw [(mem_decided_iff n c hc.ok _ hnv0 (by omega)).mp hm, Bool.or_true])
    obtain ⟨hl, hnd, m, hm, hpure⟩ :=
      updateSat_spec nodes n h hu (rootIx nodes) hroot hcount c hc.ok hc.st hc.noac hc.sat
    have hdec1 := decided_of_lits c _ hl
    have hok1 : CfgOK n (c.updateSat (ctxOf nodes n) (rootIx nodes)) :=
      ⟨by rw [hl]; exact hc.ok.size, by rw [hl]; exact hc.ok.slot, by rw [hnd, hdec1]; exact hc.ok.nd⟩
    obtain ⟨hans, _⟩ := satSub_spec nodes n h hu (rootIx nodes) hroot hcount c.decided [(v : Int)]
      (negs c.decided) m (fun x => Iff.rfl) hpure
    have hroot_eq : rootIx (ctxOf nodes n).nodes = rootIx nodes := rfl
    simp only [hroot_eq, hm, Option.getD_some]
    by_cases hb : (satSub (ctxOf nodes n) (rootIx nodes) m [(v : Int)]).2 = true
    · rw [if_pos hb]
      obtain ⟨b1, b2, b3⟩ := add_cfgAt nodes n h hu hpos c _ hc hok1 hdec1 m hm hpure (v : Int) hv0
        (by omega) hh2 (hans.mp hb).2
      exact ⟨b1, b2, _, b3, hva⟩
    · rw [if_neg hb]
      have hflip := satAt_root_flip nodes n h hu hpos c.decided (v : Int) hv0 (by omega) hc.sat
        (fun hh => hb (hans.mpr hh))
      obtain ⟨b1, b2, b3⟩ := add_cfgAt nodes n h hu hpos c _ hc hok1 hdec1 m hm hpure (-(v : Int)) hnv0
        (by omega) (by rw [Int.neg_neg]; exact hh1) hflip
      exact ⟨b1, b2, _, b3, hnva⟩

theorem completeFold_spec (h : WF nodes n) (hu : LitUnique nodes) (hpos : 0 < count nodes (rootIx nodes)) :
    ∀ (vs : List Nat) (c : Cfg), (∀ v ∈ vs, 1 ≤ v ∧ v ≤ n) →
      CfgAt nodes n (rootIx nodes) (vars nodes (rootIx nodes)) c →
      CfgAt nodes n (rootIx nodes) (vars nodes (rootIx nodes))
        (vs.foldl (completeStep (ctxOf nodes n) (rootIx nodes)) c) ∧
      (∀ x ∈ c.decided, x ∈ (vs.foldl (completeStep (ctxOf nodes n) (rootIx nodes)) c).decided) ∧
      ∀ v ∈ vs, ∃ l ∈ (vs.foldl (completeStep (ctxOf nodes n) (rootIx nodes)) c).decided, l.natAbs = v := by
  intro vs
  induction vs with
  | nil => intro c _ hc; exact ⟨hc, fun _ hx => hx, fun _ hv => by cases hv⟩
  | cons v vs ih =>
    intro c hvs hc
    rw [List.foldl_cons]
    obtain ⟨hv1, hvn⟩ := hvs v (List.mem_cons_self ..)
    obtain ⟨a1, a2, l, a3, a4⟩ := completeStep_spec nodes n h hu hpos c hc v hv1 hvn
    obtain ⟨b1, b2, b3⟩ := ih _ (fun w hw => hvs w (List.mem_cons_of_mem _ hw)) a1
    refine ⟨b1, fun x hx => b2 x (a2 x hx), fun w hw => ?_⟩
    rcases List.mem_cons.mp hw with rfl | hw
    · exact ⟨l, b2 l a3, a4⟩
    · exact b3 w hw

theorem completeCfg_spec (h : WF nodes n) (hu : LitUnique nodes) (hpos : 0 < count nodes (rootIx nodes))
    (c : Cfg) (hc : CfgAt nodes n (rootIx nodes) (vars nodes (rootIx nodes)) c) :
    CfgAt nodes n (rootIx nodes) (vars nodes (rootIx nodes))
      (completeCfg (ctxOf nodes n) (rootIx nodes) c) ∧
    (∀ x ∈ c.decided, x ∈ (completeCfg (ctxOf nodes n) (rootIx nodes) c).decided) ∧
    ∀ k, k < n → (completeCfg (ctxOf nodes n) (rootIx nodes) c).lits.getD k 0 ≠ 0 := by
  rw [completeCfg_eq]
  obtain ⟨a1, a2, a3⟩ := completeFold_spec nodes n h hu hpos ((List.range n).map (· + 1)) c
    (fun v hv => by
      rw [List.mem_map] at hv
      obtain ⟨k, hk, rfl⟩ := hv
      rw [List.mem_range] at hk
      omega) hc
  refine ⟨a1, a2, allDec_of_mem n _ a1.ok (fun v hv1 hvn => a3 v ?_)⟩
  rw [List.mem_map]
  exact ⟨v - 1, by rw [List.mem_range]; omega, by omega⟩

/-! ### `trim_sample` -/

def trimStep (d : Nat → Bool) (cl : Nat) (acc : Sample × List Int) (p : Cfg × Nat) : Sample × List Int :=
  if d p.2 then (acc.1, acc.2 ++ p.1.decided)
  else if p.2 < cl then (acc.1.addComplete p.1, acc.2)
  else (acc.1.addPartial p.1, acc.2)

theorem trimSample_eq (s : Sample) (drop : List Bool) :
    trimSample s drop =
      (((s.all.zip (List.range s.all.length)).foldl (trimStep (fun i => drop.getD i false) s.complete.length)
          (Sample.fromSamples [s], [])).1,
       setOfInt ((s.all.zip (List.range s.all.length)).foldl (trimStep (fun i => drop.getD i false) s.complete.length)
          (Sample.fromSamples [s], [])).2) := rfl

set_option linter.unusedSimpArgs false in
theorem trimFold_spec (d : Nat → Bool) (cl : Nat) : ∀ (ps : List (Cfg × Nat)) (acc : Sample × List Int),
    (ps.foldl (trimStep d cl) acc).1.vars = acc.1.vars ∧
    (∀ c, c ∈ (ps.foldl (trimStep d cl) acc).1.complete ↔
      c ∈ acc.1.complete ∨ ∃ p ∈ ps, p.1 = c ∧ d p.2 = false ∧ p.2 < cl) ∧
    (∀ c, c ∈ (ps.foldl (trimStep d cl) acc).1.partials ↔
      c ∈ acc.1.partials ∨ ∃ p ∈ ps, p.1 = c ∧ d p.2 = false ∧ ¬ p.2 < cl) ∧
    (∀ l, l ∈ (ps.foldl (trimStep d cl) acc).2 ↔
      l ∈ acc.2 ∨ ∃ p ∈ ps, d p.2 = true ∧ l ∈ p.1.decided) := by
  intro ps
  induction ps with
  | nil => intro acc; simp
  | cons p ps ih =>
    intro acc
    rw [List.foldl_cons]
    by_cases hd : d p.2 = true
    · have e : trimStep d cl acc p = (acc.1, acc.2 ++ p.1.decided) := by
        unfold trimStep; rw [if_pos hd]
      rw [e]
      obtain ⟨a1, a2, a3, a4⟩ := ih (acc.1, acc.2 ++ p.1.decided)
      refine ⟨a1, fun c => ?_, fun c => ?_, fun l => ?_⟩
      · rw [a2]; simp only [List.mem_cons, exists_eq_or_imp, Sample.addComplete, Sample.addPartial, List.mem_append, List.mem_singleton]; grind
      · rw [a3]; simp only [List.mem_cons, exists_eq_or_imp, Sample.addComplete, Sample.addPartial, List.mem_append, List.mem_singleton]; grind
      · rw [a4]; simp only [List.mem_cons, exists_eq_or_imp, Sample.addComplete, Sample.addPartial, List.mem_append, List.mem_singleton]; grind
    · have hd' : d p.2 = false := by simpa using hd
      by_cases hc : p.2 < cl
      · have e : trimStep d cl acc p = (acc.1.addComplete p.1, acc.2) := by
          unfold trimStep; rw [if_neg hd, if_pos hc]
        rw [e]
        obtain ⟨a1, a2, a3, a4⟩ := ih (acc.1.addComplete p.1, acc.2)
        refine ⟨a1, fun c => ?_, fun c => ?_, fun l => ?_⟩
        · rw [a2]; simp only [List.mem_cons, exists_eq_or_imp, Sample.addComplete, Sample.addPartial, List.mem_append, List.mem_singleton]; grind
        · rw [a3]; simp only [List.mem_cons, exists_eq_or_imp, Sample.addComplete, Sample.addPartial, List.mem_append, List.mem_singleton]; grind
        · rw [a4]; simp only [List.mem_cons, exists_eq_or_imp, Sample.addComplete, Sample.addPartial, List.mem_append, List.mem_singleton]; grind
      · have e : trimStep d cl acc p = (acc.1.addPartial p.1, acc.2) := by
          unfold trimStep; rw [if_neg hd, if_neg hc]
        rw [e]
        obtain ⟨a1, a2, a3, a4⟩ := ih (acc.1.addPartial p.1, acc.2)
        refine ⟨a1, fun c => ?_, fun c => ?_, fun l => ?_⟩
        · rw [a2]; simp only [List.mem_cons, exists_eq_or_imp, Sample.addComplete, Sample.addPartial, List.mem_append, List.mem_singleton]; grind
        · rw [a3]; simp only [List.mem_cons, exists_eq_or_imp, Sample.addComplete, Sample.addPartial, List.mem_append, List.mem_singleton]; grind
        · rw [a4]; simp only [List.mem_cons, exists_eq_or_imp, Sample.addComplete, Sample.addPartial, List.mem_append, List.mem_singleton]; grind

theorem mem_zip_range {α} (xs : List α) (p : α × Nat) :
    p ∈ xs.zip (List.range xs.length) ↔ xs[p.2]? = some p.1 := by
  rw [List.range_eq_range', ← List.zipIdx_eq_zip_range', List.mem_zipIdx_iff_getElem?]

theorem fromSamples_single_vars (s : Sample) : (Sample.fromSamples [s]).vars = setOfNat s.vars := by
  simp [Sample.fromSamples]

/-- what `trim_sample` keeps and what it hands to the resampling -/
theorem trimSample_spec (s : Sample) (drop : List Bool) :
    (trimSample s drop).1.vars = setOfNat s.vars ∧
    (∀ c ∈ (trimSample s drop).1.complete, c ∈ s.complete) ∧
    (∀ c ∈ (trimSample s drop).1.partials, c ∈ s.all) ∧
    (∀ c ∈ s.all, c ∈ (trimSample s drop).1.all ∨ ∀ l ∈ c.decided, l ∈ (trimSample s drop).2) ∧
    (∀ l ∈ (trimSample s drop).2, ∃ c ∈ s.all, l ∈ c.decided) := by
  rw [trimSample_eq]
  obtain ⟨a1, a2, a3, a4⟩ := trimFold_spec (fun i => drop.getD i false) s.complete.length (s.all.zip (List.range s.all.length))
    (Sample.fromSamples [s], [])
  have hnil1 : (Sample.fromSamples [s]).complete = [] := rfl
  have hnil2 : (Sample.fromSamples [s]).partials = [] := rfl
  refine ⟨by rw [a1]; exact fromSamples_single_vars s, fun c hc => ?_, fun c hc => ?_, fun c hc => ?_,
    fun l hl => ?_⟩
  · rcases (a2 c).mp hc with h1 | ⟨p, hp, rfl, _, hlt⟩
    · rw [hnil1] at h1; cases h1
    · rw [mem_zip_range] at hp
      unfold Sample.all at hp
      rw [List.getElem?_append_left hlt] at hp
      exact List.mem_of_getElem? hp
  · rcases (a3 c).mp hc with h1 | ⟨p, hp, rfl, _, _⟩
    · rw [hnil2] at h1; cases h1
    · rw [mem_zip_range] at hp
      exact List.mem_of_getElem? hp
  · obtain ⟨i, hi⟩ := List.mem_iff_getElem?.mp hc
    have hp : (c, i) ∈ s.all.zip (List.range s.all.length) := (mem_zip_range s.all (c, i)).mpr hi
    by_cases hd : drop.getD i false = true
    · right
      intro l hl
      rw [mem_setOfInt, a4]
      exact Or.inr ⟨(c, i), hp, hd, hl⟩
    · left
      have hd' : drop.getD i false = false := by simpa using hd
      unfold Sample.all
      rw [List.mem_append]
      by_cases hlt : i < s.complete.length
      · exact Or.inl ((a2 c).mpr (Or.inr ⟨(c, i), hp, rfl, hd', hlt⟩))
      · exact Or.inr ((a3 c).mpr (Or.inr ⟨(c, i), hp, rfl, hd', hlt⟩))
  · rw [mem_setOfInt, a4] at hl
    rcases hl with h1 | ⟨p, hp, _, hl⟩
    · cases h1
    · rw [mem_zip_range] at hp
      exact ⟨p.1, List.mem_of_getElem? hp, hl⟩

theorem trimSample_inv (p : Nat) (V : List Nat) (s : Sample) (hs : SampleInv nodes n p V s)
    (drop : List Bool) : SampleInv nodes n p V (trimSample s drop).1 := by
  obtain ⟨a1, a2, a3, _, _⟩ := trimSample_spec s drop
  have hmem : ∀ v, v ∈ (trimSample s drop).1.vars ↔ v ∈ s.vars := by
    intro v; rw [a1, mem_setOfNat]
  have hnd : (trimSample s drop).1.vars.Nodup := by rw [a1]; exact setOfNat_nodup _
  refine ⟨hnd, fun v => (hmem v).trans (hs.vars_mem v), fun c hc => ?_, fun c hc => ?_⟩
  · apply hs.cfgs
    rcases List.mem_append.mp hc with h1 | h1
    · exact List.mem_append_left _ (a2 c h1)
    · exact a3 c h1
  · rw [hs.complete c (a2 c hc)]
    exact (length_eq_of_nodup_same _ _ hnd hs.vars_nodup hmem).symm

end Ddnnf.TW.Root
