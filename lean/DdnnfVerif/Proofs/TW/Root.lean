/-
  The root: trim and resample, complete the partial configurations, and the two statements of C09
  about the construction.  (Statements fixed; proofs to be filled in.)
-/
import DdnnfVerif.Proofs.TW.Nodes
import DdnnfVerif.Proofs.TW.RootAux
namespace Ddnnf.TW

variable (nodes : List NType) (n : Nat)

namespace Root

/-! ### the resampling fold -/

theorem resampleFold_spec (h : WF nodes n) (hu : LitUnique nodes) (hpos : 0 < count nodes (rootIx nodes)) :
    ∀ (Is : List (List Int)) (s : Sample),
      (∀ I ∈ Is, I ≠ [] ∧ Within (vars nodes (rootIx nodes)) I) →
      SampleInv nodes n (rootIx nodes) (vars nodes (rootIx nodes)) s →
      SampleInv nodes n (rootIx nodes) (vars nodes (rootIx nodes))
        (Is.foldl (coverChecked (ctxOf nodes n) (rootIx nodes)) s) ∧
      KeepsCover n s (Is.foldl (coverChecked (ctxOf nodes n) (rootIx nodes)) s) ∧
      ∀ J ∈ Is, SatAt nodes (rootIx nodes) J → NoAC nodes n J →
        (Is.foldl (coverChecked (ctxOf nodes n) (rootIx nodes)) s).covers J = true := by
  have hroot := root_lt nodes n h
  have hcount : count nodes (rootIx nodes) ≠ 0 := by omega
  have hV : ∀ v ∈ vars nodes (rootIx nodes), 1 ≤ v ∧ v ≤ n := fun v hv => (mem_vars_root nodes n h v).mp hv
  intro Is
  induction Is with
  | nil => intro s _ hs; exact ⟨hs, keepsCover_refl n s, fun _ hJ => by cases hJ⟩
  | cons I Is ih =>
    intro s hIs hs
    rw [List.foldl_cons]
    obtain ⟨hne, hw⟩ := hIs I (List.mem_cons_self ..)
    obtain ⟨c1, c2, c3⟩ := coverChecked_spec nodes n h hu (rootIx nodes) hroot hcount _ hV
      (fun _ hv => hv) s hs I hne hw
    obtain ⟨d1, d2, d3⟩ := ih _ (fun J hJ => hIs J (List.mem_cons_of_mem _ hJ)) c1
    refine ⟨d1, keepsCover_trans n c2 d2, fun J hJ hsat hnoac => ?_⟩
    rcases List.mem_cons.mp hJ with rfl | hJ
    · exact d2 J (fun l hl _ => (hV _ (hw l hl).2).2) (c3 hsat hnoac)
    · exact d3 J hJ hsat hnoac

theorem trimAndResample_fst (cx : Ctx) (node : Nat) (s : Sample) (t : Nat) (q : Queue) :
    (trimAndResample cx node s t q).1 =
      if s.isEmpty then s
      else
        if ((tIter (pickShuf (trimSample s (pickDrop s.len q).1).2 (pickDrop s.len q).2).1
              (min (min s.vars.length t)
                (pickShuf (trimSample s (pickDrop s.len q).1).2 (pickDrop s.len q).2).1.length)).foldl
              (coverChecked cx node) (trimSample s (pickDrop s.len q).1).1).len < s.len
        then (tIter (pickShuf (trimSample s (pickDrop s.len q).1).2 (pickDrop s.len q).2).1
              (min (min s.vars.length t)
                (pickShuf (trimSample s (pickDrop s.len q).1).2 (pickDrop s.len q).2).1.length)).foldl
              (coverChecked cx node) (trimSample s (pickDrop s.len q).1).1
        else s := by
  unfold trimAndResample
  split <;> rfl

theorem covers_of_mem (s : Sample) (c : Cfg) (hc : c ∈ s.all) (I : List Int) (h : c.covers I = true) :
    s.covers I = true := by
  unfold Sample.covers
  rw [List.any_eq_true]
  exact ⟨c, hc, h⟩

theorem exists_of_covers (s : Sample) (I : List Int) (h : s.covers I = true) :
    ∃ c ∈ s.all, c.covers I = true := by
  unfold Sample.covers at h
  rw [List.any_eq_true] at h
  exact h

end Root

/-- `trim_and_resample` at the root, whatever is dropped and in whatever order the literals are
re-covered: still a well-formed sample, and every valid interaction of exactly `t` literals is covered -/
theorem trimAndResample_spec (h : WF nodes n) (hu : LitUnique nodes) (hpos : 0 < count nodes (rootIx nodes))
    (t : Nat) (ht : 1 ≤ t) (s : Sample) (hs : SampleAt nodes n t (rootIx nodes) s) (q : Queue) :
    SampleInv nodes n (rootIx nodes) (vars nodes (rootIx nodes))
      (trimAndResample (ctxOf nodes n) (rootIx nodes) s t q).1 ∧
    ∀ I, I.length = t → Inter I → Within (vars nodes (rootIx nodes)) I → SatAt nodes (rootIx nodes) I →
      (trimAndResample (ctxOf nodes n) (rootIx nodes) s t q).1.covers I = true := by
  have hroot := Root.root_lt nodes n h
  have hV : ∀ v ∈ vars nodes (rootIx nodes), 1 ≤ v ∧ v ≤ n := fun v hv => (mem_vars_root nodes n h v).mp hv
  have hPs : SampleInv nodes n (rootIx nodes) (vars nodes (rootIx nodes)) s ∧
      ∀ I, I.length = t → Inter I → Within (vars nodes (rootIx nodes)) I → SatAt nodes (rootIx nodes) I →
        s.covers I = true :=
    ⟨hs.inv, fun I hlen hI hW hS => hs.cover I (fun he => by rw [he] at hlen; simp at hlen; omega)
      (by omega) hI hW hS⟩
  rw [Root.trimAndResample_fst]
  split
  · exact hPs
  split
  case isFalse => exact hPs
  generalize hdrop : (pickDrop s.len q).1 = drop
  generalize (pickDrop s.len q).2 = q1
  have hs1 := Root.trimSample_inv nodes n _ _ s hs.inv drop
  obtain ⟨_, _, _, a4, a5⟩ := Root.trimSample_spec s drop
  have hshuf := pickShuf_mem (trimSample s drop).2 q1
  generalize hls' : (pickShuf (trimSample s drop).2 q1).1 = ls' at hshuf
  -- the variables are not empty
  have hvars : 1 ≤ s.vars.length := by
    obtain ⟨c, hc⟩ := List.exists_mem_of_ne_nil _ hs.nonempty
    obtain ⟨l, hl⟩ := List.exists_mem_of_ne_nil _ (hs.inv.cfgs c hc).nonempty
    have := (hs.inv.vars_mem _).mpr ((hs.inv.cfgs c hc).within l hl).2
    exact List.length_pos_of_mem this
  have hInR : ∀ I, Within (vars nodes (rootIx nodes)) I → InRangeL n I :=
    fun I hW l hl _ => (hV _ (hW l hl).2).2
  by_cases hnil : ls' = []
  · -- nothing was dropped
    subst hnil
    have hall : ∀ c ∈ s.all, c ∈ (trimSample s drop).1.all := by
      intro c hc
      rcases a4 c hc with h1 | h1
      · exact h1
      · exfalso
        obtain ⟨l, hl⟩ := List.exists_mem_of_ne_nil _ (hs.inv.cfgs c hc).nonempty
        have := (hshuf l).mpr (h1 l hl)
        cases this
    have hne1 : (trimSample s drop).1.all ≠ [] := by
      obtain ⟨c, hc⟩ := List.exists_mem_of_ne_nil _ hs.nonempty
      exact List.ne_nil_of_mem (hall c hc)
    have hfold : (tIter ([] : List Int) (min (min s.vars.length t) ([] : List Int).length)).foldl
        (coverChecked (ctxOf nodes n) (rootIx nodes)) (trimSample s drop).1 = (trimSample s drop).1 := by
      have e1 : min (min s.vars.length t) ([] : List Int).length = 0 := by simp
      rw [e1]
      show coverChecked (ctxOf nodes n) (rootIx nodes) (trimSample s drop).1 [] = _
      unfold coverChecked
      have : (trimSample s drop).1.covers [] = true := by
        obtain ⟨c, hc⟩ := List.exists_mem_of_ne_nil _ hne1
        exact Root.covers_of_mem _ c hc [] rfl
      rw [if_pos this]
    rw [hfold]
    refine ⟨hs1, fun I hlen hI hW hS => ?_⟩
    obtain ⟨c, hc, hcov⟩ := Root.exists_of_covers s I (hPs.2 I hlen hI hW hS)
    exact Root.covers_of_mem _ c (hall c hc) I hcov
  · have hlen' : 1 ≤ ls'.length := by
      cases ls' with
      | nil => exact absurd rfl hnil
      | cons a l => simp
    generalize hk : min (min s.vars.length t) ls'.length = k
    have hk1 : 1 ≤ k := by omega
    have hIs : ∀ I ∈ tIter ls' k, I ≠ [] ∧ Within (vars nodes (rootIx nodes)) I := by
      intro I hI
      refine ⟨fun he => ?_, fun l hl => ?_⟩
      · have := ((mem_tIter ls' I k).mp hI).2
        rw [he] at this
        simp at this
        omega
      · have hl' := (hshuf l).mp (mem_of_mem_tIter hI l hl)
        obtain ⟨c, hc, hlc⟩ := a5 l hl'
        exact (hs.inv.cfgs c hc).within l hlc
    obtain ⟨d1, d2, d3⟩ := Root.resampleFold_spec nodes n h hu hpos (tIter ls' k) _ hIs hs1
    refine ⟨d1, fun I hlen hI hW hS => ?_⟩
    obtain ⟨c, hc, hcov⟩ := Root.exists_of_covers s I (hPs.2 I hlen hI hW hS)
    rcases a4 c hc with hin | hdropped
    · exact d2 I (hInR I hW) (Root.covers_of_mem _ c hin I hcov)
    · have hsub : ∀ l ∈ I, l ∈ ls' := by
        intro l hl
        apply (hshuf l).mpr
        apply hdropped
        exact (covers_iff n c (hs.inv.cfgs c hc).ok I (hInR I hW)).mp hcov l hl (hI.1 l hl)
      have hnd : I.Nodup := nodup_of_map_nodup Int.natAbs I hI.2
      obtain ⟨J, hJ, hsame⟩ := exists_tIter_same ls' I hnd hsub
      have hJ' := (mem_tIter ls' J I.length).mp hJ
      have h1 : t ≤ ls'.length := by
        have := hJ'.1.length_le
        rw [List.length_reverse, hJ'.2] at this
        omega
      have h2 : t ≤ s.vars.length := by
        have := Root.length_le_of_nodup_subset (I.map Int.natAbs) s.vars hI.2 (fun v hv => by
          rw [List.mem_map] at hv
          obtain ⟨l, hl, rfl⟩ := hv
          exact (hs.inv.vars_mem _).mpr (hW l hl).2)
        rw [List.length_map] at this
        omega
      have hkt : k = I.length := by omega
      rw [← hkt] at hJ
      have hWJ : Within (vars nodes (rootIx nodes)) J := (hIs J hJ).2
      have hSJ : SatAt nodes (rootIx nodes) J := (satAt_congr nodes _ J I hsame).mpr hS
      have hcovJ := d3 J hJ hSJ (noAC_of_satAt_root nodes n h hu hpos J hWJ hSJ)
      exact covers_subset n _ (fun c hc => (d1.cfgs c hc).ok) J I (hInR J hWJ) (hInR I hW)
        (fun l hl _ => (hsame l).mpr hl) hcovJ

/-- `complete_partial_configs`: every configuration decides every feature and is a model; coverage is kept -/
theorem completePartials_spec (h : WF nodes n) (hu : LitUnique nodes) (hpos : 0 < count nodes (rootIx nodes))
    (s : Sample) (hs : SampleInv nodes n (rootIx nodes) (vars nodes (rootIx nodes)) s) :
    (∀ c ∈ (completePartials (ctxOf nodes n) (rootIx nodes) s).all,
      c.lits.toList = c.decided ∧ Complete n c.decided ∧ SatAt nodes (rootIx nodes) c.decided) ∧
    KeepsCover n s (completePartials (ctxOf nodes n) (rootIx nodes) s) := by
  have hlenV : s.vars.length = n := by
    rw [Root.length_eq_of_nodup_same s.vars _ hs.vars_nodup (vars_nodup nodes n h _) hs.vars_mem]
    exact Root.vars_root_length nodes n h
  have hall_eq : (completePartials (ctxOf nodes n) (rootIx nodes) s).all
      = s.complete ++ s.partials.map (completeCfg (ctxOf nodes n) (rootIx nodes)) := rfl
  rw [hall_eq]
  constructor
  · intro c hc
    rcases List.mem_append.mp hc with h1 | h1
    · have hcfg := hs.cfgs c (List.mem_append_left _ h1)
      have hlen : c.decided.length = n := by rw [← hcfg.ok.nd, hs.complete c h1, hlenV]
      obtain ⟨e1, e2⟩ := Root.allDec_spec n c hcfg.ok (Root.allDec_of_length n c hcfg.ok hlen)
      exact ⟨e1, e2, hcfg.sat⟩
    · rw [List.mem_map] at h1
      obtain ⟨c0, hc0, rfl⟩ := h1
      obtain ⟨b1, _, b3⟩ := Root.completeCfg_spec nodes n h hu hpos c0 (hs.cfgs c0 (List.mem_append_right _ hc0))
      obtain ⟨e1, e2⟩ := Root.allDec_spec n _ b1.ok b3
      exact ⟨e1, e2, b1.sat⟩
  · intro J hJ hcov
    obtain ⟨c, hc, hcc⟩ := Root.exists_of_covers s J hcov
    rcases List.mem_append.mp hc with h1 | h1
    · exact Root.covers_of_mem _ c (by rw [hall_eq]; exact List.mem_append_left _ h1) J hcc
    · obtain ⟨b1, b2, _⟩ := Root.completeCfg_spec nodes n h hu hpos c (hs.cfgs c hc)
      apply Root.covers_of_mem _ (completeCfg (ctxOf nodes n) (rootIx nodes) c)
        (by rw [hall_eq]; exact List.mem_append_right _ (List.mem_map_of_mem h1)) J
      rw [covers_iff n _ b1.ok J hJ]
      intro l hl h0
      exact b2 l ((covers_iff n c (hs.cfgs c hc).ok J hJ).mp hcc l hl h0)

namespace Root

/-! ### the whole construction -/

theorem run_cases (t : Nat) (q : Queue) :
    ((∀ s, (sampleNodes (ctxOf nodes n) t nodes #[] q).1.getD (rootIx nodes) .void ≠ .sample s) ∧
      run nodes n t q = (sampleNodes (ctxOf nodes n) t nodes #[] q).1.getD (rootIx nodes) .void) ∨
    ∃ s, (sampleNodes (ctxOf nodes n) t nodes #[] q).1.getD (rootIx nodes) .void = .sample s ∧
      run nodes n t q = Res.ofSample (completePartials (ctxOf nodes n) (rootIx nodes)
        (trimAndResample (ctxOf nodes n) (rootIx nodes) s t
          (sampleNodes (ctxOf nodes n) t nodes #[] q).2).1) := by
  have e : run nodes n t q =
      (match (sampleNodes (ctxOf nodes n) t nodes #[] q).1.getD (rootIx nodes) .void with
        | .sample s =>
            (Res.ofSample (completePartials (ctxOf nodes n) (rootIx nodes)
              (trimAndResample (ctxOf nodes n) (rootIx nodes) s t
                (sampleNodes (ctxOf nodes n) t nodes #[] q).2).1),
             (trimAndResample (ctxOf nodes n) (rootIx nodes) s t
                (sampleNodes (ctxOf nodes n) t nodes #[] q).2).2)
        | r => (r, (sampleNodes (ctxOf nodes n) t nodes #[] q).2)).1 := rfl
  rw [e]
  cases hr : (sampleNodes (ctxOf nodes n) t nodes #[] q).1.getD (rootIx nodes) .void with
  | empty => exact Or.inl ⟨fun s hs => (by cases hs), rfl⟩
  | void => exact Or.inl ⟨fun s hs => (by cases hs), rfl⟩
  | sample s => exact Or.inr ⟨s, rfl, rfl⟩

theorem ofSample_configs (s : Sample) (x : List Int) (hx : x ∈ (Res.ofSample s).configs) :
    ∃ c ∈ s.all, x = c.lits.toList := by
  unfold Res.ofSample at hx
  split at hx
  · cases hx
  · unfold Res.configs at hx
    rw [List.mem_map] at hx
    obtain ⟨c, hc, rfl⟩ := hx
    exact ⟨c, hc, rfl⟩

theorem configs_ofSample (s : Sample) (c : Cfg) (hc : c ∈ s.all) :
    c.lits.toList ∈ (Res.ofSample s).configs := by
  unfold Res.ofSample
  have : s.isEmpty = false := by
    unfold Sample.isEmpty
    unfold Sample.all at hc
    cases h1 : s.complete with
    | cons a l => rfl
    | nil =>
      cases h2 : s.partials with
      | cons a l => simp
      | nil => rw [h1, h2] at hc; cases hc
  rw [this]
  exact List.mem_map_of_mem hc

theorem has_mem (c : Cfg) (l : Int) (hl : l ≠ 0) (hh : c.has l = true) : l ∈ c.lits.toList := by
  unfold Cfg.has at hh
  have he : c.lits.getD (l.natAbs - 1) 0 = l := by simpa using hh
  by_cases hk : l.natAbs - 1 < c.lits.size
  · rw [getD_of_lt _ _ hk] at he
    rw [← he, Array.mem_toList_iff]
    exact Array.getElem_mem hk
  · exfalso
    rw [Array.getD_eq_getD_getElem?, Array.getElem?_eq_none (by omega)] at he
    exact hl he.symm

end Root

/-- every configuration the construction returns is a complete model -/
theorem run_valid (h : WF nodes n) (hu : LitUnique nodes) (hpos : 0 < count nodes (rootIx nodes))
    (t : Nat) (ht : 1 ≤ t) (q : Queue) :
    ∀ c ∈ (run nodes n t q).configs, Complete n c ∧ ∃ m ∈ models nodes (rootIx nodes), m.Perm c := by
  have hroot := Root.root_lt nodes n h
  intro c hc
  rcases Root.run_cases nodes n t q with ⟨hno, hrun⟩ | ⟨s, hr, hrun⟩
  · rw [hrun] at hc
    exfalso
    cases hr : (sampleNodes (ctxOf nodes n) t nodes #[] q).1.getD (rootIx nodes) .void with
    | sample s => exact hno s hr
    | empty => rw [hr] at hc; cases hc
    | void => rw [hr] at hc; cases hc
  · rw [hrun] at hc
    have hres := (sampleNodes_spec nodes n h hu hpos t ht q).2 (rootIx nodes) hroot
    have hsamp := hres.sample s hr (live_root nodes)
    obtain ⟨inv1, _⟩ := trimAndResample_spec nodes n h hu hpos t ht s hsamp
      (sampleNodes (ctxOf nodes n) t nodes #[] q).2
    obtain ⟨hall, _⟩ := completePartials_spec nodes n h hu hpos _ inv1
    obtain ⟨c0, hc0, rfl⟩ := Root.ofSample_configs _ c hc
    obtain ⟨e1, e2, e3⟩ := hall c0 hc0
    rw [e1]
    exact ⟨e2, model_of_satAt_root nodes n h _ e2 e3⟩

/-- every set of `t` literals over distinct features that is contained in a model is contained in a
configuration the construction returns -/
theorem run_covers (h : WF nodes n) (hu : LitUnique nodes) (hpos : 0 < count nodes (rootIx nodes))
    (t : Nat) (ht : 1 ≤ t) (q : Queue)
    (I : List Int) (hlen : I.length = t) (hrange : ∀ l ∈ I, l ≠ 0 ∧ l.natAbs ≤ n)
    (hdistinct : (I.map Int.natAbs).Nodup) (hsat : 0 < specCount nodes n I) :
    ∃ c ∈ (run nodes n t q).configs, ∀ l ∈ I, l ∈ c := by
  have hroot := Root.root_lt nodes n h
  have hres := (sampleNodes_spec nodes n h hu hpos t ht q).2 (rootIx nodes) hroot
  rcases Root.run_cases nodes n t q with ⟨hno, _⟩ | ⟨s, hr, hrun⟩
  · exfalso
    cases hr : (sampleNodes (ctxOf nodes n) t nodes #[] q).1.getD (rootIx nodes) .void with
    | sample s => exact hno s hr
    | empty =>
      have hv := hres.empty_vars hr
      have hn : n = 0 := by rw [← Root.vars_root_length nodes n h, hv]; rfl
      cases I with
      | nil => simp at hlen; omega
      | cons l I =>
        have := hrange l (List.mem_cons_self ..)
        have h0 : l.natAbs ≠ 0 := fun h0 => this.1 (Int.natAbs_eq_zero.mp h0)
        omega
    | void =>
      have := hres.void_iff.mp (by rw [hr]; rfl)
      omega
  · rw [hrun]
    have hsamp := hres.sample s hr (live_root nodes)
    obtain ⟨inv1, cov1⟩ := trimAndResample_spec nodes n h hu hpos t ht s hsamp
      (sampleNodes (ctxOf nodes n) t nodes #[] q).2
    obtain ⟨_, hkeep⟩ := completePartials_spec nodes n h hu hpos _ inv1
    have hI : Inter I := ⟨fun l hl => (hrange l hl).1, hdistinct⟩
    have hW : Within (vars nodes (rootIx nodes)) I := by
      intro l hl
      have := hrange l hl
      have h0 : l.natAbs ≠ 0 := fun h0 => this.1 (Int.natAbs_eq_zero.mp h0)
      exact ⟨this.1, (mem_vars_root nodes n h _).mpr ⟨by omega, this.2⟩⟩
    have hS := satAt_root_of_specCount nodes n h I hrange hsat
    have hcov := hkeep I (fun l hl _ => (hrange l hl).2) (cov1 I hlen hI hW hS)
    obtain ⟨c, hc, hcc⟩ := Root.exists_of_covers _ I hcov
    refine ⟨c.lits.toList, Root.configs_ofSample _ c hc, fun l hl => ?_⟩
    have hl0 := (hrange l hl).1
    apply Root.has_mem c l hl0
    unfold Cfg.covers at hcc
    rw [List.all_eq_true] at hcc
    exact hcc l (List.mem_filter.mpr ⟨hl, by simpa using hl0⟩)

end Ddnnf.TW
