/-
  Semantic facts the t-wise proofs use: partial models of nodes (`SatAt`), how they decompose at
  and- / or-nodes, liveness, the core.

  NOTE: `satAt_and`, `satAt_or`, `vars_and` need `Topo nodes` (the pass reads the default value for
  a "child" whose index is not smaller than the index of the node); the examples at the end of the
  file show that they fail without it.
-/
import DdnnfVerif.Proofs.TW.Defs
namespace Ddnnf.TW

variable (nodes : List NType) (n : Nat)

/-! ### helpers -/

theorem mem_negs (L : List Int) (x : Int) : x ∈ negs L ↔ -x ∈ L := by
  unfold negs
  rw [List.mem_map]
  constructor
  · rintro ⟨l, hl, rfl⟩
    rw [Int.neg_neg]; exact hl
  · intro h
    exact ⟨-x, h, Int.neg_neg x⟩

/-- `SatAt` in terms of the listed models: some listed model of the node contains the complement
of no literal of `L` -/
theorem satAt_iff_models (i : Nat) (L : List Int) :
    SatAt nodes i L ↔ ∃ m ∈ models nodes i, ∀ x ∈ m, -x ∉ L := by
  unfold SatAt
  rw [countA_eq_length_modelsA, modelsA_eq_filter, Ne, List.length_eq_zero_iff,
    List.filter_eq_nil_iff]
  constructor
  · intro h
    apply Classical.byContradiction
    intro hne
    apply h
    intro m hm hall
    apply hne
    refine ⟨m, hm, ?_⟩
    intro x hx hxL
    rw [List.all_eq_true] at hall
    have h1 := hall x hx
    have hmem : x ∈ negs L := (mem_negs L x).mpr hxL
    simp [hmem] at h1
  · rintro ⟨m, hm, hall⟩ h
    apply h m hm
    rw [List.all_eq_true]
    intro x hx
    have : x ∉ negs L := fun hmem => hall x hx ((mem_negs L x).mp hmem)
    simp [this]

theorem countA_eq (ng : List Int) (i : Nat) (hi : i < nodes.length) :
    countA nodes ng i
      = fCountA ng nodes[i] (fun j => if j < i then countA nodes ng j else 0) :=
  val_eq 0 (fCountA ng) nodes i hi

theorem vars_eq (i : Nat) (hi : i < nodes.length) :
    vars nodes i
      = fVars (count nodes) nodes[i] (fun j => if j < i then vars nodes j else []) :=
  val_eq [] (fVars (count nodes)) nodes i hi

theorem model_natAbs_mem (h : WF nodes n) (i : Nat) (m : Config) (hm : m ∈ models nodes i)
    (x : Int) (hx : x ∈ m) : x.natAbs ∈ vars nodes i :=
  (models_vars' nodes h.topo h.smooth i m hm).mem_iff.mp (List.mem_map.mpr ⟨x, hx, rfl⟩)

theorem model_exists_of_mem_vars (h : WF nodes n) (i : Nat) (m : Config)
    (hm : m ∈ models nodes i) (v : Nat) (hv : v ∈ vars nodes i) : ∃ x ∈ m, x.natAbs = v := by
  have := (models_vars' nodes h.topo h.smooth i m hm).mem_iff.mpr hv
  rw [List.mem_map] at this
  exact this

theorem flatten_nodup_disjoint {α} (f : Nat → List α) (cs : List Nat)
    (h : ((cs.map f).flatten).Nodup) (a b : Nat) (ha : a ∈ cs) (hb : b ∈ cs) (hab : a ≠ b)
    (v : α) (hva : v ∈ f a) (hvb : v ∈ f b) : False := by
  induction cs with
  | nil => cases ha
  | cons c cs ih =>
    rw [List.map_cons, List.flatten_cons, List.nodup_append] at h
    obtain ⟨_, h2, h3⟩ := h
    have hin : ∀ d ∈ cs, ∀ w ∈ f d, w ∈ (cs.map f).flatten := fun d hd w hw =>
      List.mem_flatten.mpr ⟨f d, List.mem_map.mpr ⟨d, hd, rfl⟩, hw⟩
    rcases List.mem_cons.mp ha with rfl | ha' <;> rcases List.mem_cons.mp hb with rfl | hb'
    · exact hab rfl
    · exact h3 v hva v (hin b hb' v hvb) rfl
    · exact h3 v hvb v (hin a ha' v hva) rfl
    · exact ih h2 ha' hb'

theorem mem_varsOf (D : List Nat) (v : Nat) : v ∈ varsOf nodes D ↔ ∃ d ∈ D, v ∈ vars nodes d := by
  unfold varsOf
  rw [List.mem_flatten]
  constructor
  · rintro ⟨l, hl, hv⟩
    rw [List.mem_map] at hl
    obtain ⟨d, hd, rfl⟩ := hl
    exact ⟨d, hd, hv⟩
  · rintro ⟨d, hd, hv⟩
    exact ⟨_, List.mem_map.mpr ⟨d, hd, rfl⟩, hv⟩

theorem nodup_of_map_nodup {α β} (f : α → β) (l : List α) (h : (l.map f).Nodup) : l.Nodup := by
  induction l with
  | nil => exact List.nodup_nil
  | cons a l ih =>
    rw [List.map_cons, List.nodup_cons] at h
    rw [List.nodup_cons]
    exact ⟨fun ha => h.1 (List.mem_map.mpr ⟨a, ha, rfl⟩), ih h.2⟩

/-! ### and- / or-nodes (these need `Topo nodes`) -/

theorem satAt_and (ht : Topo nodes) (i : Nat) (hi : i < nodes.length) (cs : List Nat)
    (hnd : nodes[i] = .and cs) (L : List Int) :
    SatAt nodes i L ↔ ∀ c ∈ cs, SatAt nodes c L := by
  have hlt : ∀ c ∈ cs, c < i := fun c hc => ht i hi c (by rw [hnd]; exact hc)
  unfold SatAt
  rw [countA_eq nodes _ i hi, hnd]
  show prodNat (cs.map _) ≠ 0 ↔ _
  rw [Ne, prodNat_eq_zero]
  constructor
  · intro h c hc hz
    apply h
    refine ⟨c, hc, ?_⟩
    show (if c < i then _ else 0) = 0
    rw [if_pos (hlt c hc)]; exact hz
  · rintro h ⟨c, hc, hz⟩
    have hz' : (if c < i then countA nodes (negs L) c else 0) = 0 := hz
    rw [if_pos (hlt c hc)] at hz'
    exact h c hc hz'

theorem satAt_or (ht : Topo nodes) (i : Nat) (hi : i < nodes.length) (cs : List Nat)
    (hnd : nodes[i] = .or cs) (L : List Int) :
    SatAt nodes i L ↔ ∃ c ∈ cs, SatAt nodes c L := by
  have hlt : ∀ c ∈ cs, c < i := fun c hc => ht i hi c (by rw [hnd]; exact hc)
  unfold SatAt
  rw [countA_eq nodes _ i hi, hnd]
  show sumNat (cs.map _) ≠ 0 ↔ _
  rw [Ne, sumNat_eq_zero]
  constructor
  · intro h
    apply Classical.byContradiction
    intro hne
    apply h
    intro c hc
    show (if c < i then _ else 0) = 0
    rw [if_pos (hlt c hc)]
    apply Classical.byContradiction
    intro hz
    exact hne ⟨c, hc, hz⟩
  · rintro ⟨c, hc, hz⟩ h
    have hz' : (if c < i then countA nodes (negs L) c else 0) = 0 := h c hc
    rw [if_pos (hlt c hc)] at hz'
    exact hz hz'

theorem vars_and (ht : Topo nodes) (p : Nat) (hp : p < nodes.length) (cs : List Nat)
    (hnd : nodes[p] = .and cs) : vars nodes p = varsOf nodes cs := by
  have hlt : ∀ c ∈ cs, c < p := fun c hc => ht p hp c (by rw [hnd]; exact hc)
  rw [vars_eq nodes p hp, hnd]
  show (cs.map _).flatten = (cs.map (vars nodes)).flatten
  congr 1
  apply List.map_congr_left
  intro c hc
  show (if c < p then _ else []) = _
  rw [if_pos (hlt c hc)]

/-! ### the statements -/

theorem vars_nodup (h : WF nodes n) (i : Nat) : (vars nodes i).Nodup := by
  induction i using Nat.strongRecOn with
  | _ i ih =>
    by_cases hi : i < nodes.length
    · cases hnd : nodes[i] with
      | and cs =>
        rw [vars_and nodes h.topo i hi cs hnd]
        exact h.decomposable i hi cs hnd
      | or cs =>
        have hlt : ∀ c ∈ cs, c < i := fun c hc => h.topo i hi c (by rw [hnd]; exact hc)
        rw [vars_eq nodes i hi, hnd]
        show (match cs.filter (fun c => count nodes c != 0) with
          | [] => []
          | c :: _ => if c < i then vars nodes c else []).Nodup
        cases hf : cs.filter (fun c => count nodes c != 0) with
        | nil => exact List.nodup_nil
        | cons c rest =>
          have hc : c ∈ cs := by
            have : c ∈ cs.filter (fun c => count nodes c != 0) := by
              rw [hf]; exact List.mem_cons_self ..
            exact (List.mem_filter.mp this).1
          show (if c < i then vars nodes c else []).Nodup
          rw [if_pos (hlt c hc)]
          exact ih c (hlt c hc)
      | lit l =>
        rw [vars_eq nodes i hi, hnd]
        show [l.natAbs].Nodup
        simp
      | tru =>
        rw [vars_eq nodes i hi, hnd]
        exact List.nodup_nil
      | fls =>
        rw [vars_eq nodes i hi, hnd]
        exact List.nodup_nil
    · have : vars nodes i = [] := val_of_ge _ _ _ _ (by omega)
      rw [this]
      exact List.nodup_nil

/-- fewer literals: easier -/
theorem satAt_mono (i : Nat) (L L' : List Int) (hsub : ∀ x ∈ L, x ∈ L') (h : SatAt nodes i L') :
    SatAt nodes i L := by
  rw [satAt_iff_models] at h ⊢
  obtain ⟨m, hm, hall⟩ := h
  exact ⟨m, hm, fun x hx hxL => hall x hx (hsub _ hxL)⟩

theorem satAt_congr (i : Nat) (L L' : List Int) (hsame : ∀ x, x ∈ L ↔ x ∈ L') :
    SatAt nodes i L ↔ SatAt nodes i L' :=
  ⟨satAt_mono nodes i L' L (fun x hx => (hsame x).mpr hx),
   satAt_mono nodes i L L' (fun x hx => (hsame x).mp hx)⟩

theorem satAt_nil (i : Nat) : SatAt nodes i [] ↔ count nodes i ≠ 0 := by
  unfold SatAt
  show countA nodes [] i ≠ 0 ↔ _
  rw [countA_nil]

theorem satAt_count (i : Nat) (L : List Int) (h : SatAt nodes i L) : count nodes i ≠ 0 :=
  (satAt_nil nodes i).mp (satAt_mono nodes i [] L (fun x hx => by cases hx) h)

theorem satAt_lit (i : Nat) (hi : i < nodes.length) (l : Int) (hl : nodes[i] = .lit l) (L : List Int) :
    SatAt nodes i L ↔ (-l) ∉ L := by
  unfold SatAt
  rw [countA_eq nodes _ i hi, hl]
  show (if (negs L).contains l then 0 else 1) ≠ 0 ↔ _
  by_cases hm : l ∈ negs L
  · have h1 : -l ∈ L := (mem_negs L l).mp hm
    simp [hm, h1]
  · have h1 : -l ∉ L := fun h1 => hm ((mem_negs L l).mpr h1)
    simp [hm, h1]

/-- literals over variables the node does not mention do not matter -/
theorem satAt_outside (h : WF nodes n) (i : Nat) (L L' : List Int)
    (hout : ∀ l ∈ L', l.natAbs ∉ vars nodes i) :
    SatAt nodes i (L ++ L') ↔ SatAt nodes i L := by
  constructor
  · exact satAt_mono nodes i L (L ++ L') (fun x hx => List.mem_append_left _ hx)
  · intro hs
    rw [satAt_iff_models] at hs ⊢
    obtain ⟨m, hm, hall⟩ := hs
    refine ⟨m, hm, fun x hx hxL => ?_⟩
    rcases List.mem_append.mp hxL with h1 | h1
    · exact hall x hx h1
    · have := hout _ h1
      rw [Int.natAbs_neg] at this
      exact this (model_natAbs_mem nodes n h i m hm x hx)

/-- the marks: for a node that has a model at all, the pure mark for the complements of `L` says
exactly that no model of the node is compatible with `L` -/
theorem pureMark_iff_not_satAt (i : Nat) (L : List Int) (hc : count nodes i ≠ 0) :
    SatS.pureMark nodes (negs L) i = true ↔ ¬ SatAt nodes i L := by
  have hiff := satMark_iff nodes (negs L) i
  unfold SatAt
  unfold SatS.pureMark
  constructor
  · intro hm hne
    exact hne (hiff.mp (Or.inl hm))
  · intro hne
    have hz : countA nodes (negs L) i = 0 := Classical.byContradiction hne
    rcases hiff.mpr hz with h1 | h1
    · exact h1
    · exact (hc h1).elim

/-- at an and-node whose children all have models, distinct children are independent -/
theorem indep_of_children (h : WF nodes n) (p : Nat) (hp : p < nodes.length) (cs : List Nat)
    (hnd : nodes[p] = .and cs) (hall : ∀ c ∈ cs, count nodes c ≠ 0)
    (D1 D2 : List Nat) (hnodup : (D1 ++ D2).Nodup) (hsub : ∀ d ∈ D1 ++ D2, d ∈ cs) :
    Indep nodes p (varsOf nodes D1) (varsOf nodes D2) := by
  have hdec := h.decomposable p hp cs hnd
  rw [List.nodup_append] at hnodup
  obtain ⟨_, _, hne⟩ := hnodup
  have hdis : ∀ a ∈ cs, ∀ b ∈ cs, a ≠ b → ∀ v, v ∈ vars nodes a → v ∉ vars nodes b :=
    fun a ha b hb hab v hva hvb =>
      flatten_nodup_disjoint (vars nodes) cs hdec a b ha hb hab v hva hvb
  have hcs1 : ∀ d ∈ D1, d ∈ cs := fun d hd => hsub d (List.mem_append_left _ hd)
  have hcs2 : ∀ d ∈ D2, d ∈ cs := fun d hd => hsub d (List.mem_append_right _ hd)
  refine ⟨?_, ?_⟩
  · intro v hv1 hv2
    rw [mem_varsOf] at hv1 hv2
    obtain ⟨d1, hd1, hv1⟩ := hv1
    obtain ⟨d2, hd2, hv2⟩ := hv2
    exact hdis d1 (hcs1 d1 hd1) d2 (hcs2 d2 hd2) (hne d1 hd1 d2 hd2) v hv1 hv2
  · intro L1 L2 hw1 hw2 hs1 hs2
    rw [satAt_and nodes h.topo p hp cs hnd] at hs1 hs2 ⊢
    intro c hc
    by_cases hmeet : ∃ l ∈ L2, l.natAbs ∈ vars nodes c
    · -- `c` is one of the nodes of `D2`: the literals of `L1` are outside
      obtain ⟨l, hl, hlv⟩ := hmeet
      have hv2 := (hw2 l hl).2
      rw [mem_varsOf] at hv2
      obtain ⟨d2, hd2, hv2⟩ := hv2
      have hcd : c = d2 := by
        apply Classical.byContradiction
        intro hcd
        exact hdis c hc d2 (hcs2 d2 hd2) hcd _ hlv hv2
      subst hcd
      have hout : ∀ l ∈ L1, l.natAbs ∉ vars nodes c := by
        intro l1 hl1 hlv1
        have hv1 := (hw1 l1 hl1).2
        rw [mem_varsOf] at hv1
        obtain ⟨d1, hd1, hv1⟩ := hv1
        exact hdis d1 (hcs1 d1 hd1) c hc (hne d1 hd1 c hd2) _ hv1 hlv1
      have h1 : SatAt nodes c (L2 ++ L1) := (satAt_outside nodes n h c L2 L1 hout).mpr (hs2 c hc)
      exact (satAt_congr nodes c (L1 ++ L2) (L2 ++ L1) (fun x => by
        rw [List.mem_append, List.mem_append]; exact Or.comm)).mpr h1
    · have hout : ∀ l ∈ L2, l.natAbs ∉ vars nodes c := fun l hl hlv => hmeet ⟨l, hl, hlv⟩
      exact (satAt_outside nodes n h c L1 L2 hout).mpr (hs1 c hc)

/-- a partial model of a child over the child's variables is a partial model of the and-node -/
theorem satAt_and_child (h : WF nodes n) (p : Nat) (hp : p < nodes.length) (cs : List Nat)
    (hnd : nodes[p] = .and cs) (hall : ∀ c ∈ cs, count nodes c ≠ 0) (c : Nat) (hc : c ∈ cs)
    (L : List Int) (hL : Within (vars nodes c) L) :
    SatAt nodes p L ↔ SatAt nodes c L := by
  have hdec := h.decomposable p hp cs hnd
  rw [satAt_and nodes h.topo p hp cs hnd]
  constructor
  · intro hs
    exact hs c hc
  · intro hs c' hc'
    by_cases hcc : c' = c
    · rw [hcc]; exact hs
    · have hout : ∀ l ∈ L, l.natAbs ∉ vars nodes c' := fun l hl hlv =>
        flatten_nodup_disjoint (vars nodes) cs hdec c' c hc' hc hcc _ hlv (hL l hl).2
      have h0 : SatAt nodes c' [] := (satAt_nil nodes c').mpr (hall c' hc')
      have := (satAt_outside nodes n h c' [] L hout).mpr h0
      rw [List.nil_append] at this
      exact this

/-- at an or-node every child that has a model mentions the variables of the node -/
theorem vars_or_child (h : WF nodes n) (p : Nat) (hp : p < nodes.length) (cs : List Nat)
    (hnd : nodes[p] = .or cs) (c : Nat) (hc : c ∈ cs) (hcc : count nodes c ≠ 0) :
    ∀ v, v ∈ vars nodes c ↔ v ∈ vars nodes p :=
  fun _ => (h.smooth p hp cs hnd c hc hcc).mem_iff

theorem vars_lit (i : Nat) (hi : i < nodes.length) (l : Int) (hl : nodes[i] = .lit l) :
    vars nodes i = [l.natAbs] := by
  rw [vars_eq nodes i hi, hl]
  rfl

/-- liveness goes down to the children that have a model -/
theorem live_root : Live nodes (rootIx nodes) :=
  ⟨fun _ hv => hv, fun _ _ _ hs => hs⟩

theorem live_and_child (h : WF nodes n) (p : Nat) (hp : p < nodes.length) (cs : List Nat)
    (hnd : nodes[p] = .and cs) (hall : ∀ c ∈ cs, count nodes c ≠ 0) (hl : Live nodes p)
    (c : Nat) (hc : c ∈ cs) : Live nodes c := by
  have hvp : ∀ v ∈ vars nodes c, v ∈ vars nodes p := by
    intro v hv
    rw [vars_and nodes h.topo p hp cs hnd, mem_varsOf]
    exact ⟨c, hc, hv⟩
  refine ⟨fun v hv => hl.1 v (hvp v hv), ?_⟩
  intro L hI hW hs
  apply hl.2 L hI (fun l hl' => ⟨(hW l hl').1, hvp _ (hW l hl').2⟩)
  exact (satAt_and_child nodes n h p hp cs hnd hall c hc L hW).mpr hs

theorem live_or_child (h : WF nodes n) (p : Nat) (hp : p < nodes.length) (cs : List Nat)
    (hnd : nodes[p] = .or cs) (hl : Live nodes p) (c : Nat) (hc : c ∈ cs) (hcc : count nodes c ≠ 0) :
    Live nodes c := by
  have hvp := vars_or_child nodes n h p hp cs hnd c hc hcc
  refine ⟨fun v hv => hl.1 v ((hvp v).mp hv), ?_⟩
  intro L hI hW hs
  apply hl.2 L hI (fun l hl' => ⟨(hW l hl').1, (hvp _).mp (hW l hl').2⟩)
  exact (satAt_or nodes h.topo p hp cs hnd L).mpr ⟨c, hc, hs⟩

/-- a literal that is part of a partial model of the root is not excluded by the core -/
theorem noAC_of_satAt_root (h : WF nodes n) (hu : LitUnique nodes) (hpos : 0 < count nodes (rootIx nodes))
    (L : List Int) (hL : Within (vars nodes (rootIx nodes)) L) (hsat : SatAt nodes (rootIx nodes) L) :
    NoAC nodes n L := by
  intro l hl hcore
  rw [satAt_iff_models] at hsat
  obtain ⟨m, hm, hallm⟩ := hsat
  have hx := ((coreOf_exact nodes n h (pdLeaf_of_WF nodes n h hu) hpos (-l)).mp hcore).2.2 m hm
  have := hallm (-l) hx
  rw [Int.neg_neg] at this
  exact this hl

/-- … hence of every live node -/
theorem noAC_of_live (h : WF nodes n) (hu : LitUnique nodes) (hpos : 0 < count nodes (rootIx nodes))
    (i : Nat) (hi : i < nodes.length) (hl : Live nodes i) (L : List Int) (hI : Inter L)
    (hL : Within (vars nodes i) L) (hsat : SatAt nodes i L) : NoAC nodes n L :=
  noAC_of_satAt_root nodes n h hu hpos L (fun l hl' => ⟨(hL l hl').1, hl.1 _ (hL l hl').2⟩)
    (hl.2 L hI hL hsat)

/-- at the root: a complete consistent list of literals that is a partial model is a model -/
theorem model_of_satAt_root (h : WF nodes n) (L : List Int) (hc : Complete n L)
    (hsat : SatAt nodes (rootIx nodes) L) : ∃ m ∈ models nodes (rootIx nodes), m.Perm L := by
  rw [satAt_iff_models] at hsat
  obtain ⟨m, hm, hallm⟩ := hsat
  have hcm := root_models_complete nodes n h m hm
  refine ⟨m, hm, ?_⟩
  have hndm : m.Nodup :=
    nodup_of_map_nodup Int.natAbs m (hcm.1.nodup_iff.mpr (nodup_range_succ n))
  have hndL : L.Nodup :=
    nodup_of_map_nodup Int.natAbs L (hc.1.nodup_iff.mpr (nodup_range_succ n))
  rw [List.perm_ext_iff_of_nodup hndm hndL]
  intro a
  constructor
  · intro ha
    rcases hc.mem_or (hcm.2 a ha) (hcm.natAbs_le ha) with h1 | h1
    · exact h1
    · exact (hallm a ha h1).elim
  · intro ha
    rcases hcm.mem_or (hc.2 a ha) (hc.natAbs_le ha) with h1 | h1
    · exact h1
    · have := hallm (-a) h1
      rw [Int.neg_neg] at this
      exact (this ha).elim

/-- … and an interaction that is contained in a model is a partial model of the root -/
theorem satAt_root_of_specCount (h : WF nodes n) (I : List Int) (hrange : ∀ l ∈ I, l ≠ 0 ∧ l.natAbs ≤ n)
    (hsat : 0 < specCount nodes n I) : SatAt nodes (rootIx nodes) I := by
  unfold SatAt
  have := countA_exact nodes n h I hrange
  unfold negs
  rw [this]
  omega

/-- a partial model over the node's variables does not contain a feature in both polarities -/
theorem satAt_consistent (h : WF nodes n) (i : Nat) (L : List Int) (hL : Within (vars nodes i) L)
    (hsat : SatAt nodes i L) : ∀ l ∈ L, (-l) ∉ L := by
  rw [satAt_iff_models] at hsat
  obtain ⟨m, hm, hallm⟩ := hsat
  have hnd : (m.map Int.natAbs).Nodup :=
    (models_vars' nodes h.topo h.smooth i m hm).nodup_iff.mpr (vars_nodup nodes n h i)
  -- every literal of `L` is in `m`
  have hin : ∀ l ∈ L, l ∈ m := by
    intro l hl
    obtain ⟨x, hx, hxe⟩ := model_exists_of_mem_vars nodes n h i m hm _ (hL l hl).2
    rcases Int.natAbs_eq_natAbs_iff.mp hxe with h1 | h1
    · rw [← h1]; exact hx
    · have := hallm x hx
      rw [h1, Int.neg_neg] at this
      exact (this hl).elim
  intro l hl hnl
  have h1 := hin l hl
  have h2 := hin (-l) hnl
  have := nodup_map_inj Int.natAbs m hnd h1 h2 (by rw [Int.natAbs_neg])
  have := (hL l hl).1
  omega

theorem mem_vars_root (h : WF nodes n) (v : Nat) : v ∈ vars nodes (rootIx nodes) ↔ 1 ≤ v ∧ v ≤ n := by
  rw [h.rootComplete.mem_iff, List.mem_map]
  constructor
  · rintro ⟨k, hk, rfl⟩
    rw [List.mem_range] at hk
    omega
  · rintro ⟨h1, h2⟩
    exact ⟨v - 1, by rw [List.mem_range]; omega, by omega⟩

/-! ### `satAt_and`, `satAt_or`, `vars_and` fail without `Topo nodes` -/

example : ¬ (SatAt [.and [1], .tru] 0 [] ↔ ∀ c ∈ [1], SatAt [.and [1], .tru] c []) := by
  unfold SatAt; decide

example : ¬ (SatAt [.or [1], .tru] 0 [] ↔ ∃ c ∈ [1], SatAt [.or [1], .tru] c []) := by
  unfold SatAt; decide

example : vars [.and [1], .lit 1] 0 ≠ varsOf [.and [1], .lit 1] [1] := by decide

end Ddnnf.TW
