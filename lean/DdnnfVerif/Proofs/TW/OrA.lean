/-
  Or-nodes of the fitness-guided variant: `AttributeSimilarityMerger`.
  (Statements fixed; proofs to be filled in.)
-/
import DdnnfVerif.Proofs.TW.CoverA
import DdnnfVerif.Proofs.TW.OrAAux
namespace Ddnnf.TW

variable (nodes : List NType) (n : Nat)

/-- `AttributeSimilarityMerger::merge` of two non-empty samples over the same variables, whatever the
comparisons of the objective values say -/
theorem orMergeA_spec (t : Nat) (p : Nat) (V : List Nat) (hV : ∀ v ∈ V, 1 ≤ v ∧ v ≤ n)
    (Q1 Q2 : List Int → Prop) (s1 s2 : Sample)
    (h1 : SampleInv nodes n p V s1) (h2 : SampleInv nodes n p V s2)
    (hne1 : s1.all ≠ []) (hne2 : s2.all ≠ [])
    (l1 : LitsOK V Q1 s1) (l2 : LitsOK V Q2 s2)
    (c1 : CoversEq t V Q1 s1) (c2 : CoversEq t V Q2 s2) (q : Queue) :
    SampleInv nodes n p V (orMergeA t s1 s2 q).1 ∧ (orMergeA t s1 s2 q).1.all ≠ [] ∧
    LitsOK V (fun I => Q1 I ∨ Q2 I) (orMergeA t s1 s2 q).1 ∧
    CoversEq t V (fun I => Q1 I ∨ Q2 I) (orMergeA t s1 s2 q).1 := by
  refine ⟨?_, orMergeA_nonempty t s1 s2 q (Or.inl hne1), ?_, ?_⟩
  all_goals
    rw [orMergeA_eq t s1 s2 q hne1 hne2]
    have hall : ∀ c ∈ orCandsA s1 s2 q, CfgAt nodes n p V c := by
      intro c hc
      rcases (orCandsA_mem s1 s2 q c).mp hc with h | h
      · exact h1.cfgs c h
      · exact h2.cfgs c h
    obtain ⟨r1, r2⟩ := orLoopA_spec nodes n t p V hV (orCandsA s1 s2 q) (Sample.fromSamples [s1, s2])
      (sampleInv_fromSamples nodes n p V s1 s2 h1 h2) hall
  · exact r1
  · have hmem : ∀ x, x ∈ ((orCandsA s1 s2 q).foldl (orStepA t) (Sample.fromSamples [s1, s2])).literals ↔
        x ∈ s1.literals ∨ x ∈ s2.literals := by
      intro x
      rw [orLoopA_literals, fromSamples_literals_mem]
    refine ⟨?_, ?_⟩
    · intro x hx
      rcases (hmem x).mp hx with h | h
      · exact l1.within x h
      · exact l2.within x h
    · intro x hx0 hxV hQ
      rcases hQ with hQ | hQ
      · exact (hmem x).mpr (Or.inl (l1.all x hx0 hxV hQ))
      · exact (hmem x).mpr (Or.inr (l2.all x hx0 hxV hQ))
  · intro I a2 a3 a4 a5
    rcases a5 with a5 | a5
    · obtain ⟨c, hc, hcc⟩ := exists_of_covers s1 I (c1 I a2 a3 a4 a5)
      exact r2 c ((orCandsA_mem s1 s2 q c).mpr (Or.inl hc)) I a2 a3 a4 hcc
    · obtain ⟨c, hc, hcc⟩ := exists_of_covers s2 I (c2 I a2 a3 a4 a5)
      exact r2 c ((orCandsA_mem s1 s2 q c).mpr (Or.inr hc)) I a2 a3 a4 hcc

/-! ### the fold -/

theorem coversEq_weaken (t : Nat) (V : List Nat) (Q Q' : List Int → Prop) (s : Sample)
    (hQ : ∀ I, Q' I → Q I) (h : CoversEq t V Q s) : CoversEq t V Q' s :=
  fun I a2 a3 a4 a5 => h I a2 a3 a4 (hQ I a5)

theorem litsOK_weaken (V : List Nat) (Q Q' : List Int → Prop) (s : Sample)
    (hQ : ∀ I, Q' I → Q I) (h : LitsOK V Q s) : LitsOK V Q' s :=
  ⟨h.within, fun l a1 a2 a3 => h.all l a1 a2 (hQ _ a3)⟩

theorem orFoldA_aux (t : Nat) (p : Nat) (V : List Nat) (hV : ∀ v ∈ V, 1 ≤ v ∧ v ≤ n) :
    ∀ (ss : List Sample) (ds : List Nat) (hlen : ss.length = ds.length),
    (∀ s ∈ ss, SampleInv nodes n p V s ∧ s.all ≠ []) →
    (∀ j (hj : j < ds.length), CoversEq t V (SatAt nodes ds[j]) (ss[j]'(by omega)) ∧
      LitsOK V (SatAt nodes ds[j]) (ss[j]'(by omega))) →
    ∀ (acc : Sample) (D : List Nat) (q : Queue), SampleInv nodes n p V acc → acc.all ≠ [] →
      LitsOK V (fun I => ∃ d ∈ D, SatAt nodes d I) acc →
      CoversEq t V (fun I => ∃ d ∈ D, SatAt nodes d I) acc →
      SampleInv nodes n p V (foldMerge (orMergeA t) ss acc q).1 ∧
      (foldMerge (orMergeA t) ss acc q).1.all ≠ [] ∧
      LitsOK V (fun I => ∃ d ∈ D ++ ds, SatAt nodes d I) (foldMerge (orMergeA t) ss acc q).1 ∧
      CoversEq t V (fun I => ∃ d ∈ D ++ ds, SatAt nodes d I) (foldMerge (orMergeA t) ss acc q).1 := by
  intro ss
  induction ss with
  | nil =>
    intro ds hlen _ _ acc D q ha hne hl hc
    have : ds = [] := List.eq_nil_of_length_eq_zero hlen.symm
    subst this
    rw [List.append_nil]
    exact ⟨ha, hne, hl, hc⟩
  | cons s ss ih =>
    intro ds hlen hinv hcov acc D q ha hne hl hc
    cases ds with
    | nil => simp at hlen
    | cons d ds =>
      have hs := hinv s List.mem_cons_self
      have hcs : CoversEq t V (SatAt nodes d) s ∧ LitsOK V (SatAt nodes d) s := hcov 0 (by simp)
      obtain ⟨m1, m2, m3, m4⟩ := orMergeA_spec nodes n t p V hV _ _ acc s ha hs.1 hne hs.2 hl hcs.2
        hc hcs.1 q
      have hQ : ∀ I, (∃ x ∈ D ++ [d], SatAt nodes x I) → (∃ x ∈ D, SatAt nodes x I) ∨ SatAt nodes d I := by
        rintro I ⟨x, hx, hxs⟩
        rcases List.mem_append.mp hx with h | h
        · exact Or.inl ⟨x, h, hxs⟩
        · have : x = d := by simpa using h
          subst this
          exact Or.inr hxs
      have := ih ds (by simpa using hlen) (fun x hx => hinv x (List.mem_cons_of_mem _ hx))
        (fun j hj => by
          have := hcov (j + 1) (by simp; omega)
          simpa using this)
        (orMergeA t acc s q).1 (D ++ [d]) (orMergeA t acc s q).2 m1 m2
        (litsOK_weaken V _ _ _ hQ m3) (coversEq_weaken t V _ _ _ hQ m4)
      rw [List.append_assoc] at this
      exact this

/-- the fold of `merge_all` over the samples of the children `ds` -/
theorem orFoldA_spec (t : Nat) (p : Nat) (V : List Nat) (hV : ∀ v ∈ V, 1 ≤ v ∧ v ≤ n)
    (ds : List Nat) (ss : List Sample) (hlen : ss.length = ds.length)
    (hinv : ∀ s ∈ ss, SampleInv nodes n p V s ∧ s.all ≠ [])
    (hcov : ∀ j (hj : j < ds.length), CoversEq t V (SatAt nodes ds[j]) (ss[j]'(by omega)) ∧
      LitsOK V (SatAt nodes ds[j]) (ss[j]'(by omega))) (q : Queue) :
    (ds = [] → (foldMerge (orMergeA t) ss {} q).1.isEmpty = true) ∧
    (ds ≠ [] → SampleInv nodes n p V (foldMerge (orMergeA t) ss {} q).1 ∧
      (foldMerge (orMergeA t) ss {} q).1.all ≠ [] ∧
      LitsOK V (fun I => ∃ d ∈ ds, SatAt nodes d I) (foldMerge (orMergeA t) ss {} q).1 ∧
      CoversEq t V (fun I => ∃ d ∈ ds, SatAt nodes d I) (foldMerge (orMergeA t) ss {} q).1) := by
  constructor
  · intro hd
    subst hd
    have : ss = [] := List.eq_nil_of_length_eq_zero hlen
    subst this
    rfl
  · intro hd
    cases ds with
    | nil => exact absurd rfl hd
    | cons d ds =>
      cases ss with
      | nil => simp at hlen
      | cons s ss =>
        have he : foldMerge (orMergeA t) (s :: ss) {} q = foldMerge (orMergeA t) ss s q := by
          rw [foldMerge, orMergeA_empty_left]
        rw [he]
        have hs := hinv s List.mem_cons_self
        have hcs : CoversEq t V (SatAt nodes d) s ∧ LitsOK V (SatAt nodes d) s := hcov 0 (by simp)
        have hQ : ∀ I, (∃ x ∈ [d], SatAt nodes x I) → SatAt nodes d I := by
          rintro I ⟨x, hx, hxs⟩
          have : x = d := by simpa using hx
          subst this
          exact hxs
        have := orFoldA_aux nodes n t p V hV ss ds (by simpa using hlen)
          (fun x hx => hinv x (List.mem_cons_of_mem _ hx))
          (fun j hj => by
            have := hcov (j + 1) (by simp; omega)
            simpa using this)
          s [d] q hs.1 hs.2
          (litsOK_weaken V _ _ _ hQ hcs.2) (coversEq_weaken t V _ _ _ hQ hcs.1)
        exact this

theorem orFoldA_nonempty_aux (t : Nat) : ∀ (ss : List Sample) (acc : Sample) (q : Queue),
    (acc.all ≠ [] ∨ ∃ s ∈ ss, s.all ≠ []) → (foldMerge (orMergeA t) ss acc q).1.all ≠ [] := by
  intro ss
  induction ss with
  | nil =>
    intro acc q h
    rcases h with h | ⟨s, hs, _⟩
    · exact h
    · exact absurd hs List.not_mem_nil
  | cons s ss ih =>
    intro acc q h
    have he : foldMerge (orMergeA t) (s :: ss) acc q =
        foldMerge (orMergeA t) ss (orMergeA t acc s q).1 (orMergeA t acc s q).2 := by
      rw [foldMerge]
    rw [he]
    by_cases hm : acc.all ≠ [] ∨ s.all ≠ []
    · exact ih _ _ (Or.inl (orMergeA_nonempty t acc s q hm))
    · rcases h with h | ⟨x, hx, hxn⟩
      · exact absurd (Or.inl h) hm
      · rcases List.mem_cons.mp hx with h | h
        · subst h
          exact absurd (Or.inr hxn) hm
        · exact ih _ _ (Or.inr ⟨x, h, hxn⟩)

/-- without any hypothesis on the samples: merging never loses all configurations -/
theorem orFoldA_nonempty (t : Nat) (ss : List Sample) (q : Queue) (hne : ∃ s ∈ ss, s.all ≠ []) :
    (foldMerge (orMergeA t) ss {} q).1.all ≠ [] :=
  orFoldA_nonempty_aux t ss {} q (Or.inr hne)

end Ddnnf.TW
