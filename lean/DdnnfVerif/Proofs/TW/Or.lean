/-
  Or-nodes: `SimilarityMerger::merge` keeps every configuration that is not already t-wise covered,
  so the merged sample covers what either operand covered.  (Statements fixed; proofs to be filled in.)
-/
import DdnnfVerif.Proofs.TW.Cover
namespace Ddnnf.TW

variable (nodes : List NType) (n : Nat)

/-! ### `Sample.add` -/

theorem mem_add_all (s : Sample) (c x : Cfg) : x ∈ (s.add c).all ↔ x ∈ s.all ∨ x = c := by
  unfold Sample.add Sample.addComplete Sample.addPartial Sample.all
  split
  · simp only [List.mem_append, List.mem_singleton]
    constructor
    · rintro ((h | h) | h)
      · exact Or.inl (Or.inl h)
      · exact Or.inr h
      · exact Or.inl (Or.inr h)
    · rintro ((h | h) | h)
      · exact Or.inl (Or.inl h)
      · exact Or.inr h
      · exact Or.inl (Or.inr h)
  · simp only [List.mem_append, List.mem_singleton]
    constructor
    · rintro (h | h | h)
      · exact Or.inl (Or.inl h)
      · exact Or.inl (Or.inr h)
      · exact Or.inr h
    · rintro ((h | h) | h)
      · exact Or.inl h
      · exact Or.inr (Or.inl h)
      · exact Or.inr (Or.inr h)

theorem add_vars (s : Sample) (c : Cfg) : (s.add c).vars = s.vars := by
  unfold Sample.add Sample.addComplete Sample.addPartial
  split <;> rfl

theorem mem_add_complete (s : Sample) (c x : Cfg) (h : x ∈ (s.add c).complete) :
    x ∈ s.complete ∨ (x = c ∧ c.nd = s.vars.length) := by
  unfold Sample.add Sample.addComplete Sample.addPartial at h
  split at h
  · rename_i hc
    simp only [List.mem_append, List.mem_singleton] at h
    rcases h with h | h
    · exact Or.inl h
    · refine Or.inr ⟨h, ?_⟩
      unfold Sample.isComplete at hc
      exact eq_of_beq hc
  · exact Or.inl h

theorem sampleInv_add (p : Nat) (V : List Nat) (s : Sample) (c : Cfg)
    (hs : SampleInv nodes n p V s) (hc : CfgAt nodes n p V c) : SampleInv nodes n p V (s.add c) := by
  refine ⟨?_, ?_, ?_, ?_⟩
  · rw [add_vars]; exact hs.vars_nodup
  · rw [add_vars]; exact hs.vars_mem
  · intro x hx
    rcases (mem_add_all s c x).mp hx with h | h
    · exact hs.cfgs x h
    · exact h ▸ hc
  · intro x hx
    rw [add_vars]
    rcases mem_add_complete s c x hx with h | ⟨h1, h2⟩
    · exact hs.complete x h
    · rw [h1]; exact h2

theorem covers_of_mem (s : Sample) (c : Cfg) (hc : c ∈ s.all) (I : List Int) (h : c.covers I = true) :
    s.covers I = true := by
  unfold Sample.covers
  exact List.any_eq_true.mpr ⟨c, hc, h⟩

theorem exists_of_covers (s : Sample) (I : List Int) (h : s.covers I = true) :
    ∃ c ∈ s.all, c.covers I = true := by
  unfold Sample.covers at h
  exact List.any_eq_true.mp h

/-! ### candidates -/

/-- what is known about a candidate while the sample `s` is being built -/
structure CandOK (p : Nat) (V : List Nat) (s : Sample) (c : Cand) : Prop where
  cfg : CfgAt nodes n p V c.cfg
  lits : c.lits = c.cfg.decided
  max : c.maxI = c.lits.length → ∃ c' ∈ s.all, ∀ l ∈ c.lits, l ∈ c'.decided

/-- every interaction of at most `t` literals of the configuration `c` is covered by `s` -/
def Done (t : Nat) (V : List Nat) (s : Sample) (c : Cfg) : Prop :=
  ∀ I, I ≠ [] → I.length ≤ t → Inter I → Within V I → c.covers I = true → s.covers I = true

theorem done_mono (t : Nat) (V : List Nat) (s s' : Sample) (c : Cfg)
    (hss : ∀ x ∈ s.all, x ∈ s'.all) (h : Done t V s c) : Done t V s' c := by
  intro I h1 h2 h3 h4 h5
  obtain ⟨x, hx, hxc⟩ := exists_of_covers s I (h I h1 h2 h3 h4 h5)
  exact covers_of_mem s' x (hss x hx) I hxc

theorem done_of_mem (t : Nat) (V : List Nat) (s : Sample) (c : Cfg) (hc : c ∈ s.all) : Done t V s c :=
  fun I _ _ _ _ h => covers_of_mem s c hc I h

theorem candOK_update (p : Nat) (V : List Nat) (s : Sample) (c : Cand) (x : Cfg)
    (hc : CandOK nodes n p V s c) : CandOK nodes n p V (s.add x) (c.update x.decided) := by
  refine ⟨hc.cfg, hc.lits, ?_⟩
  intro hmax
  show ∃ c' ∈ (s.add x).all, ∀ l ∈ c.lits, l ∈ c'.decided
  have hmax' : (if (c.lits.filter x.decided.contains).length > c.maxI
      then (c.lits.filter x.decided.contains).length else c.maxI) = c.lits.length := hmax
  split at hmax'
  · refine ⟨x, (mem_add_all s x x).mpr (Or.inr rfl), ?_⟩
    intro l hl
    have := (List.length_filter_eq_length_iff.mp hmax') l hl
    exact List.contains_iff_mem.mp this
  · obtain ⟨c', hc', hsub⟩ := hc.max hmax'
    exact ⟨c', (mem_add_all s x c').mpr (Or.inl hc'), hsub⟩

theorem candOK_init (p : Nat) (V : List Nat) (s : Sample) (c : Cfg) (hc : CfgAt nodes n p V c) :
    CandOK nodes n p V s ({ cfg := c, lits := c.decided } : Cand) := by
  refine ⟨hc, rfl, ?_⟩
  intro h
  exfalso
  have h' : 0 = c.decided.length := h
  exact hc.nonempty (List.eq_nil_of_length_eq_zero h'.symm)

/-- a candidate that is skipped has all its small interactions covered -/
theorem covered_done (t : Nat) (p : Nat) (V : List Nat) (hV : ∀ v ∈ V, 1 ≤ v ∧ v ≤ n)
    (s : Sample) (hs : SampleInv nodes n p V s) (c : Cand) (hc : CandOK nodes n p V s c)
    (h : c.covered s t = true) : Done t V s c.cfg := by
  intro I _ hlen hI hw hcov
  have hIr : InRangeL n I := fun l hl _ => (hV _ (hw l hl).2).2
  have hsub : ∀ l ∈ I, l ∈ c.lits := by
    intro l hl
    rw [hc.lits]
    exact (covers_iff n c.cfg hc.cfg.ok I hIr).mp hcov l hl (hI.1 l hl)
  unfold Cand.covered at h
  split at h
  · rename_i hm
    obtain ⟨c', hc', hsub'⟩ := hc.max (eq_of_beq hm)
    refine covers_of_mem s c' hc' I ?_
    exact (covers_iff n c' (hs.cfgs c' hc').ok I hIr).mpr fun l hl _ => hsub' l (hsub l hl)
  · split at h
    · exact absurd h (by decide)
    · have hnd : I.Nodup := List.Pairwise.of_map Int.natAbs (fun a b hab heq => hab (by rw [heq])) hI.2
      have hle : I.length ≤ c.lits.length := List.Nodup.length_le_of_subset hnd hsub
      obtain ⟨J, hJ, hIJ⟩ := exists_tIter_superset c.lits I hnd hsub (min t c.lits.length)
        (Nat.le_min.mpr ⟨hlen, hle⟩) (Nat.min_le_right _ _)
      have hJc : s.covers J = true := List.all_eq_true.mp h J hJ
      have hJr : InRangeL n J := by
        intro l hl _
        have := mem_of_mem_tIter hJ l hl
        rw [hc.lits] at this
        exact (decided_range n c.cfg hc.cfg.ok l this).2
      exact covers_subset n s (fun x hx => (hs.cfgs x hx).ok) J I hJr hIr (fun l hl _ => hIJ l hl) hJc

/-! ### the loop -/

theorem swapRemove_mem (cands : List Cand) (i : Nat) (next : Cand) (h : cands[i]? = some next) :
    (swapRemove cands i).length + 1 = cands.length ∧
    (∀ c ∈ swapRemove cands i, c ∈ cands) ∧
    (∀ c ∈ cands, c = next ∨ c ∈ swapRemove cands i) := by
  obtain ⟨hi, hget⟩ := List.getElem?_eq_some_iff.mp h
  have hp := swapRemove_perm cands i hi
  refine ⟨?_, ?_, ?_⟩
  · rw [hp.length_eq, List.length_eraseIdx]
    simp only [hi, if_true]
    omega
  · intro c hc
    exact List.mem_of_mem_eraseIdx (hp.mem_iff.mp hc)
  · intro c hc
    obtain ⟨j, hj, hjc⟩ := List.getElem_of_mem hc
    by_cases hji : j = i
    · left
      subst hji
      rw [← hjc, hget]
    · right
      exact hp.mem_iff.mpr (List.mem_eraseIdx_iff_getElem.mpr ⟨j, hj, hji, hjc⟩)

theorem orLoop_mem (t : Nat) : ∀ (fuel : Nat) (cands : List Cand) (s : Sample),
    ∀ c ∈ s.all, c ∈ (orLoop t fuel cands s).all := by
  intro fuel
  induction fuel with
  | zero => intro cands s c hc; exact hc
  | succ fuel ih =>
    intro cands s c hc
    rw [orLoop]
    split
    · exact hc
    · rename_i i next _
      dsimp only
      split
      · exact ih _ _ c hc
      · exact ih _ _ c ((mem_add_all s next.cfg c).mpr (Or.inl hc))

theorem orLoop_nonempty (t : Nat) (fuel : Nat) (cands : List Cand) (s : Sample) (c : Cfg)
    (hc : c ∈ s.all) : (orLoop t fuel cands s).all ≠ [] := by
  intro hnil
  have := orLoop_mem t fuel cands s c hc
  rw [hnil] at this
  exact absurd this List.not_mem_nil

theorem orLoop_spec (t : Nat) (p : Nat) (V : List Nat) (hV : ∀ v ∈ V, 1 ≤ v ∧ v ≤ n) :
    ∀ (fuel : Nat) (cands : List Cand) (s : Sample), cands.length ≤ fuel →
      SampleInv nodes n p V s → (∀ c ∈ cands, CandOK nodes n p V s c) →
      SampleInv nodes n p V (orLoop t fuel cands s) ∧
      (∀ c ∈ cands, Done t V (orLoop t fuel cands s) c.cfg) := by
  intro fuel
  induction fuel with
  | zero =>
    intro cands s hlen hs _
    have : cands = [] := List.eq_nil_of_length_eq_zero (Nat.le_zero.mp hlen)
    subst this
    exact ⟨hs, fun c hc => absurd hc List.not_mem_nil⟩
  | succ fuel ih =>
    intro cands s hlen hs hcands
    rw [orLoop]
    split
    · rename_i hnone
      have : cands = [] := (argMax_none cands).mp hnone
      subst this
      exact ⟨hs, fun c hc => absurd hc List.not_mem_nil⟩
    · rename_i i next hsome
      have hget := argMax_some cands i next hsome
      obtain ⟨hl, hsub, hsup⟩ := swapRemove_mem cands i next hget
      have hnext : next ∈ cands := List.mem_of_getElem? hget
      dsimp only
      split
      · rename_i hcov
        obtain ⟨r1, r2⟩ := ih (swapRemove cands i) s (by omega) hs (fun c hc => hcands c (hsub c hc))
        refine ⟨r1, ?_⟩
        intro c hc
        rcases hsup c hc with h | h
        · subst h
          exact done_mono t V s _ c.cfg (orLoop_mem t fuel _ s)
            (covered_done nodes n t p V hV s hs c (hcands c hc) hcov)
        · exact r2 c h
      · have hs' : SampleInv nodes n p V (s.add next.cfg) :=
          sampleInv_add nodes n p V s next.cfg hs (hcands next hnext).cfg
        have hnl : next.lits = next.cfg.decided := (hcands next hnext).lits
        obtain ⟨r1, r2⟩ := ih ((swapRemove cands i).map fun c => c.update next.lits) (s.add next.cfg)
          (by rw [List.length_map]; omega) hs' (by
            intro c hc
            obtain ⟨c0, hc0, rfl⟩ := List.mem_map.mp hc
            rw [hnl]
            exact candOK_update nodes n p V s c0 next.cfg (hcands c0 (hsub c0 hc0)))
        refine ⟨r1, ?_⟩
        intro c hc
        rcases hsup c hc with h | h
        · subst h
          exact done_of_mem t V _ c.cfg
            (orLoop_mem t fuel _ _ c.cfg ((mem_add_all s c.cfg c.cfg).mpr (Or.inr rfl)))
        · exact r2 (c.update next.lits) (List.mem_map.mpr ⟨c, h, rfl⟩)

/-! ### `orMerge` -/

theorem isEmpty_iff (s : Sample) : s.isEmpty = true ↔ s.all = [] := by
  unfold Sample.isEmpty Sample.all
  simp only [Bool.and_eq_true, List.isEmpty_iff, List.append_eq_nil_iff]

theorem sampleInv_fromSamples (p : Nat) (V : List Nat) (s1 s2 : Sample)
    (h1 : SampleInv nodes n p V s1) (h2 : SampleInv nodes n p V s2) :
    SampleInv nodes n p V (Sample.fromSamples [s1, s2]) := by
  refine ⟨setOfNat_nodup _, ?_, ?_, ?_⟩
  · intro v
    show v ∈ setOfNat _ ↔ _
    rw [mem_setOfNat]
    simp only [List.flatMap_cons, List.flatMap_nil, List.append_nil, List.mem_append]
    rw [h1.vars_mem, h2.vars_mem]
    exact or_self_iff
  · intro c hc
    exact absurd hc List.not_mem_nil
  · intro c hc
    exact absurd hc List.not_mem_nil

/-- the shape of `orMerge` on two non-empty operands -/
theorem orMerge_eq (t : Nat) (s1 s2 : Sample) (hne1 : s1.all ≠ []) (hne2 : s2.all ≠ []) :
    ∃ (init : List Cfg) (last : Cfg), s1.all ++ s2.all = init ++ [last] ∧
      orMerge t s1 s2 =
        orLoop t (init.map fun c => (({ cfg := c, lits := c.decided } : Cand)).update last.decided).length
          (init.map fun c => (({ cfg := c, lits := c.decided } : Cand)).update last.decided)
          ((Sample.fromSamples [s1, s2]).add last) := by
  have hne : s1.all ++ s2.all ≠ [] := by
    intro h
    exact hne1 (List.append_eq_nil_iff.mp h).1
  obtain ⟨init, last, hl⟩ : ∃ init last, s1.all ++ s2.all = init ++ [last] :=
    ⟨_, _, (List.dropLast_concat_getLast hne).symm⟩
  refine ⟨init, last, hl, ?_⟩
  have e1 : s1.isEmpty = false := by
    rw [Bool.eq_false_iff]; exact fun h => hne1 ((isEmpty_iff s1).mp h)
  have e2 : s2.isEmpty = false := by
    rw [Bool.eq_false_iff]; exact fun h => hne2 ((isEmpty_iff s2).mp h)
  unfold orMerge
  simp only [e1, e2, Bool.false_eq_true, if_false]
  rw [hl]
  simp only [List.map_append, List.map_cons, List.map_nil, List.getLast?_append, List.getLast?_singleton,
    Option.some_or, List.dropLast_concat, List.map_map]
  rfl

theorem orMerge_nonempty (t : Nat) (l r : Sample) (h : l.all ≠ [] ∨ r.all ≠ []) :
    (orMerge t l r).all ≠ [] := by
  by_cases hl : l.all = []
  · have : l.isEmpty = true := (isEmpty_iff l).mpr hl
    unfold orMerge
    rw [if_pos this]
    rcases h with h | h
    · exact absurd hl h
    · exact h
  · by_cases hr : r.all = []
    · have e1 : l.isEmpty = false := by
        rw [Bool.eq_false_iff]; exact fun h => hl ((isEmpty_iff l).mp h)
      have : r.isEmpty = true := (isEmpty_iff r).mpr hr
      unfold orMerge
      simp only [e1, this, Bool.false_eq_true, if_false, if_true]
      exact hl
    · obtain ⟨init, last, _, he⟩ := orMerge_eq t l r hl hr
      rw [he]
      exact orLoop_nonempty t _ _ _ last ((mem_add_all _ last last).mpr (Or.inr rfl))

/-- `SimilarityMerger::merge` of two non-empty samples over the same variables -/
theorem orMerge_spec (t : Nat) (p : Nat) (V : List Nat) (hV : ∀ v ∈ V, 1 ≤ v ∧ v ≤ n)
    (Q1 Q2 : List Int → Prop) (s1 s2 : Sample)
    (h1 : SampleInv nodes n p V s1) (h2 : SampleInv nodes n p V s2)
    (hne1 : s1.all ≠ []) (hne2 : s2.all ≠ [])
    (c1 : Covers t V Q1 s1) (c2 : Covers t V Q2 s2) :
    SampleInv nodes n p V (orMerge t s1 s2) ∧ (orMerge t s1 s2).all ≠ [] ∧
    Covers t V (fun I => Q1 I ∨ Q2 I) (orMerge t s1 s2) := by
  refine ⟨?_, orMerge_nonempty t s1 s2 (Or.inl hne1), ?_⟩
  all_goals
    obtain ⟨init, last, hl, he⟩ := orMerge_eq t s1 s2 hne1 hne2
    rw [he]
    have hall : ∀ c ∈ s1.all ++ s2.all, CfgAt nodes n p V c := by
      intro c hc
      rcases List.mem_append.mp hc with h | h
      · exact h1.cfgs c h
      · exact h2.cfgs c h
    have hlast : CfgAt nodes n p V last := hall last (by rw [hl]; simp)
    have hs0 := sampleInv_add nodes n p V _ last (sampleInv_fromSamples nodes n p V s1 s2 h1 h2) hlast
    obtain ⟨r1, r2⟩ := orLoop_spec nodes n t p V hV _
      (init.map fun c => (({ cfg := c, lits := c.decided } : Cand)).update last.decided)
      ((Sample.fromSamples [s1, s2]).add last) (Nat.le_refl _) hs0 (by
        intro c hc
        obtain ⟨c0, hc0, rfl⟩ := List.mem_map.mp hc
        exact candOK_update nodes n p V _ _ last
          (candOK_init nodes n p V _ c0 (hall c0 (by rw [hl]; exact List.mem_append_left _ hc0))))
  · exact r1
  · have key : ∀ c ∈ s1.all ++ s2.all, Done t V
        (orLoop t (init.map fun c => (({ cfg := c, lits := c.decided } : Cand)).update last.decided).length
          (init.map fun c => (({ cfg := c, lits := c.decided } : Cand)).update last.decided)
          ((Sample.fromSamples [s1, s2]).add last)) c := by
      intro c hc
      rw [hl] at hc
      rcases List.mem_append.mp hc with h | h
      · exact r2 _ (List.mem_map.mpr ⟨c, h, rfl⟩)
      · have : c = last := by simpa using h
        subst this
        exact done_of_mem t V _ c (orLoop_mem t _ _ _ c ((mem_add_all _ c c).mpr (Or.inr rfl)))
    intro I a1 a2 a3 a4 a5
    rcases a5 with a5 | a5
    · obtain ⟨c, hc, hcc⟩ := exists_of_covers s1 I (c1 I a1 a2 a3 a4 a5)
      exact key c (List.mem_append_left _ hc) I a1 a2 a3 a4 hcc
    · obtain ⟨c, hc, hcc⟩ := exists_of_covers s2 I (c2 I a1 a2 a3 a4 a5)
      exact key c (List.mem_append_right _ hc) I a1 a2 a3 a4 hcc

/-! ### the fold -/

theorem orMerge_empty_left (t : Nat) (s : Sample) : orMerge t {} s = s := by
  unfold orMerge
  rfl

theorem covers_weaken (t : Nat) (V : List Nat) (Q Q' : List Int → Prop) (s : Sample)
    (hQ : ∀ I, Q' I → Q I) (h : Covers t V Q s) : Covers t V Q' s :=
  fun I a1 a2 a3 a4 a5 => h I a1 a2 a3 a4 (hQ I a5)

theorem orFold_aux (t : Nat) (p : Nat) (V : List Nat) (hV : ∀ v ∈ V, 1 ≤ v ∧ v ≤ n) :
    ∀ (ss : List Sample) (ds : List Nat) (hlen : ss.length = ds.length),
    (∀ s ∈ ss, SampleInv nodes n p V s ∧ s.all ≠ []) →
    (∀ j (hj : j < ds.length), Covers t V (SatAt nodes ds[j]) (ss[j]'(by omega))) →
    ∀ (acc : Sample) (D : List Nat), SampleInv nodes n p V acc → acc.all ≠ [] →
      Covers t V (fun I => ∃ d ∈ D, SatAt nodes d I) acc →
      SampleInv nodes n p V (ss.foldl (orMerge t) acc) ∧ (ss.foldl (orMerge t) acc).all ≠ [] ∧
      Covers t V (fun I => ∃ d ∈ D ++ ds, SatAt nodes d I) (ss.foldl (orMerge t) acc) := by
  intro ss
  induction ss with
  | nil =>
    intro ds hlen _ _ acc D ha hne hc
    have : ds = [] := List.eq_nil_of_length_eq_zero hlen.symm
    subst this
    rw [List.append_nil]
    exact ⟨ha, hne, hc⟩
  | cons s ss ih =>
    intro ds hlen hinv hcov acc D ha hne hc
    cases ds with
    | nil => simp at hlen
    | cons d ds =>
      have hs := hinv s List.mem_cons_self
      have hcs : Covers t V (SatAt nodes d) s := hcov 0 (by simp)
      obtain ⟨m1, m2, m3⟩ := orMerge_spec nodes n t p V hV _ _ acc s ha hs.1 hne hs.2 hc hcs
      have := ih ds (by simpa using hlen) (fun x hx => hinv x (List.mem_cons_of_mem _ hx))
        (fun j hj => by
          have := hcov (j + 1) (by simp; omega)
          simpa using this)
        (orMerge t acc s) (D ++ [d]) m1 m2
        (covers_weaken t V _ _ _ (by
          rintro I ⟨x, hx, hxs⟩
          rcases List.mem_append.mp hx with h | h
          · exact Or.inl ⟨x, h, hxs⟩
          · have : x = d := by simpa using h
            subst this
            exact Or.inr hxs) m3)
      rw [List.append_assoc] at this
      exact this

/-- the fold of `merge_all` over the samples of the children `ds` -/
theorem orFold_spec (t : Nat) (p : Nat) (V : List Nat) (hV : ∀ v ∈ V, 1 ≤ v ∧ v ≤ n)
    (ds : List Nat) (ss : List Sample) (hlen : ss.length = ds.length)
    (hinv : ∀ s ∈ ss, SampleInv nodes n p V s ∧ s.all ≠ [])
    (hcov : ∀ j (hj : j < ds.length), Covers t V (SatAt nodes ds[j]) (ss[j]'(by omega))) :
    (ds = [] → (ss.foldl (orMerge t) {}).isEmpty = true) ∧
    (ds ≠ [] → SampleInv nodes n p V (ss.foldl (orMerge t) {}) ∧ (ss.foldl (orMerge t) {}).all ≠ [] ∧
      Covers t V (fun I => ∃ d ∈ ds, SatAt nodes d I) (ss.foldl (orMerge t) {})) := by
  constructor
  · intro hd
    subst hd
    have : ss = [] := List.eq_nil_of_length_eq_zero hlen
    subst this
    rfl
  · intro hd
    cases ds with
    | nil => exact absurd rfl hd
    | cons d ds =>
      cases ss with
      | nil => simp at hlen
      | cons s ss =>
        rw [List.foldl_cons, orMerge_empty_left]
        have hs := hinv s List.mem_cons_self
        have hcs : Covers t V (SatAt nodes d) s := hcov 0 (by simp)
        have := orFold_aux nodes n t p V hV ss ds (by simpa using hlen)
          (fun x hx => hinv x (List.mem_cons_of_mem _ hx))
          (fun j hj => by
            have := hcov (j + 1) (by simp; omega)
            simpa using this)
          s [d] hs.1 hs.2
          (covers_weaken t V _ _ _ (by
            rintro I ⟨x, hx, hxs⟩
            have : x = d := by simpa using hx
            subst this
            exact hxs) hcs)
        exact this

theorem orFold_nonempty_aux (t : Nat) : ∀ (ss : List Sample) (acc : Sample),
    (acc.all ≠ [] ∨ ∃ s ∈ ss, s.all ≠ []) → (ss.foldl (orMerge t) acc).all ≠ [] := by
  intro ss
  induction ss with
  | nil =>
    intro acc h
    rcases h with h | ⟨s, hs, _⟩
    · exact h
    · exact absurd hs List.not_mem_nil
  | cons s ss ih =>
    intro acc h
    rw [List.foldl_cons]
    by_cases hm : acc.all ≠ [] ∨ s.all ≠ []
    · exact ih _ (Or.inl (orMerge_nonempty t acc s hm))
    · rcases h with h | ⟨x, hx, hxn⟩
      · exact absurd (Or.inl h) hm
      · rcases List.mem_cons.mp hx with h | h
        · subst h
          exact absurd (Or.inr hxn) hm
        · exact ih _ (Or.inr ⟨x, h, hxn⟩)

/-- without any hypothesis on the samples: merging never loses all configurations -/
theorem orFold_nonempty (t : Nat) (ss : List Sample) (hne : ∃ s ∈ ss, s.all ≠ []) :
    (ss.foldl (orMerge t) {}).all ≠ [] :=
  orFold_nonempty_aux t ss {} (Or.inr hne)

end Ddnnf.TW
