/-
  Configurations and their cached SAT state: the operations of `Cfg` keep the slot discipline, and
  `satSub` / `updateSat` on a state that is `StOK` answer like a fresh query.
-/
import DdnnfVerif.Proofs.TW.Defs
namespace Ddnnf.TW

variable (nodes : List NType) (n : Nat)

/-! ### slots -/

theorem getD_set (a : Array Int) (i k : Nat) (l : Int) :
    (a.setIfInBounds i l).getD k 0 = if k = i ∧ i < a.size then l else a.getD k 0 := by
  simp only [Array.getD_eq_getD_getElem?, Array.getElem?_setIfInBounds]
  by_cases hki : k = i
  · subst hki
    by_cases hk : k < a.size
    · simp [hk]
    · simp [hk]
  · have : ¬ i = k := fun h => hki h.symm
    simp [hki, this]

theorem getD_replicate0 (k : Nat) : (Array.replicate n (0 : Int)).getD k 0 = 0 := by
  simp only [Array.getD_eq_getD_getElem?, Array.getElem?_replicate]
  split <;> rfl

theorem getD_of_lt (a : Array Int) (k : Nat) (hk : k < a.size) : a.getD k 0 = a[k] := by
  simp [Array.getD_eq_getD_getElem?, hk]

/-- membership in `decided`, slot by slot -/
theorem mem_decided_char (c : Cfg) (hc : CfgOK n c) (l : Int) :
    l ∈ c.decided ↔ l ≠ 0 ∧ l.natAbs ≤ n ∧ c.lits.getD (l.natAbs - 1) 0 = l := by
  unfold Cfg.decided
  rw [List.mem_filter, Array.mem_toList_iff, Array.mem_iff_getElem]
  constructor
  · rintro ⟨⟨k, hk, hkl⟩, hne⟩
    have hne' : l ≠ 0 := by simpa using hne
    have hk' : k < n := hc.size ▸ hk
    have hg : c.lits.getD k 0 = l := by rw [getD_of_lt _ _ hk]; exact hkl
    have := hc.slot k hk'
    rw [hg] at this
    rcases this with h | h
    · exact absurd h hne'
    · refine ⟨hne', by omega, ?_⟩
      have : l.natAbs - 1 = k := by omega
      rw [this]; exact hg
  · rintro ⟨hne, hr, hg⟩
    have h0 : l.natAbs ≠ 0 := fun h => hne (Int.natAbs_eq_zero.mp h)
    have hk : l.natAbs - 1 < c.lits.size := by rw [hc.size]; omega
    refine ⟨⟨l.natAbs - 1, hk, ?_⟩, by simpa using hne⟩
    rw [← getD_of_lt _ _ hk]; exact hg

theorem decided_length (c : Cfg) : c.decided.length = c.lits.toList.countP (· != 0) := by
  unfold Cfg.decided
  rw [List.countP_eq_length_filter]

theorem cfgOK_empty (st : Option (Array Bool)) : CfgOK n (Cfg.empty n st) := by
  refine ⟨by simp [Cfg.empty], fun k _ => Or.inl ?_, ?_⟩
  · exact getD_replicate0 n k
  · simp [Cfg.empty, Cfg.decided]

theorem decided_empty (st : Option (Array Bool)) : (Cfg.empty n st).decided = [] := by
  simp [Cfg.empty, Cfg.decided]

/-- membership in `decided` is `has` -/
theorem mem_decided_iff (c : Cfg) (hc : CfgOK n c) (l : Int) (hl : l ≠ 0) (hr : l.natAbs ≤ n) :
    l ∈ c.decided ↔ c.has l = true := by
  rw [mem_decided_char n c hc l]
  unfold Cfg.has
  simp [hl, hr]

theorem nodup_aux : ∀ (L : List Int) (o : Nat),
    (∀ k (h : k < L.length), L[k] = 0 ∨ L[k].natAbs = o + k + 1) →
    ((L.filter (· != 0)).map Int.natAbs).Nodup ∧
      ∀ x ∈ (L.filter (· != 0)).map Int.natAbs, o < x := by
  intro L
  induction L with
  | nil => intro o _; exact ⟨List.nodup_nil, fun x hx => by cases hx⟩
  | cons a L ih =>
    intro o h
    have hL : ∀ k (hk : k < L.length), L[k] = 0 ∨ L[k].natAbs = (o + 1) + k + 1 := by
      intro k hk
      have := h (k + 1) (by simpa using hk)
      simp only [List.getElem_cons_succ] at this
      rcases this with h | h
      · exact Or.inl h
      · exact Or.inr (by omega)
    obtain ⟨h1, h2⟩ := ih (o + 1) hL
    have ha := h 0 (by simp)
    simp only [List.getElem_cons_zero] at ha
    rw [List.filter_cons]
    by_cases ha0 : a = 0
    · have : ¬ ((a != 0) = true) := by simp [ha0]
      rw [if_neg this]
      exact ⟨h1, fun x hx => by have := h2 x hx; omega⟩
    · have : (a != 0) = true := by simpa using ha0
      rw [if_pos this, List.map_cons]
      have haa : a.natAbs = o + 1 := by
        rcases ha with h | h
        · exact absurd h ha0
        · omega
      refine ⟨List.nodup_cons.mpr ⟨fun hm => ?_, h1⟩, fun x hx => ?_⟩
      · have := h2 _ hm; omega
      · rcases List.mem_cons.mp hx with hx | hx
        · omega
        · have := h2 x hx; omega

theorem decided_range (c : Cfg) (hc : CfgOK n c) : ∀ l ∈ c.decided, l ≠ 0 ∧ l.natAbs ≤ n := by
  intro l hl
  have := (mem_decided_char n c hc l).mp hl
  exact ⟨this.1, this.2.1⟩

theorem decided_inter (c : Cfg) (hc : CfgOK n c) : Inter c.decided := by
  refine ⟨fun l hl => (decided_range n c hc l hl).1, ?_⟩
  unfold Cfg.decided
  refine (nodup_aux c.lits.toList 0 ?_).1
  intro k hk
  have hk' : k < c.lits.size := by simpa using hk
  have := hc.slot k (hc.size ▸ hk')
  rw [getD_of_lt _ _ hk'] at this
  rw [Array.getElem_toList]
  rcases this with h | h
  · exact Or.inl h
  · exact Or.inr (by omega)

theorem neg_not_mem_decided (c : Cfg) (hc : CfgOK n c) (l : Int) (hl : l ∈ c.decided) :
    (-l) ∉ c.decided := by
  intro h
  have h1 := (mem_decided_char n c hc l).mp hl
  have h2 := (mem_decided_char n c hc (-l)).mp h
  rw [Int.natAbs_neg] at h2
  have : l = -l := h1.2.2.symm.trans h2.2.2
  have := h1.1
  omega

/-- one `add` of a literal whose complement is not in the configuration -/
theorem add_spec (c : Cfg) (hc : CfgOK n c) (l : Int) (hl : l ≠ 0) (hr : l.natAbs ≤ n)
    (hcons : (-l) ∉ c.decided) :
    CfgOK n (c.add l) ∧ (∀ x, x ∈ (c.add l).decided ↔ x ∈ c.decided ∨ x = l) ∧
    (c.add l).st = c.st ∧ (c.add l).stc = false ∧
    (c.add l).nd = (if c.lits.getD (l.natAbs - 1) 0 = 0 then c.nd + 1 else c.nd) ∧
    (c.lits.getD (l.natAbs - 1) 0 = 0 ∨ c.lits.getD (l.natAbs - 1) 0 = l) := by
  have h0 : l.natAbs ≠ 0 := fun h => hl (Int.natAbs_eq_zero.mp h)
  have hi : l.natAbs - 1 < c.lits.size := by rw [hc.size]; omega
  have hslot : c.lits.getD (l.natAbs - 1) 0 = 0 ∨ c.lits.getD (l.natAbs - 1) 0 = l := by
    rcases hc.slot (l.natAbs - 1) (by omega) with h | h
    · exact Or.inl h
    · have h' : (c.lits.getD (l.natAbs - 1) 0).natAbs = l.natAbs := by omega
      rcases Int.natAbs_eq_natAbs_iff.mp h' with h'' | h''
      · exact Or.inr h''
      · exfalso
        apply hcons
        rw [mem_decided_char n c hc (-l), Int.natAbs_neg]
        exact ⟨by omega, hr, h''⟩
  have e : c.add l = ⟨c.lits.setIfInBounds (l.natAbs - 1) l, c.st, false,
      if c.lits.getD (l.natAbs - 1) 0 == 0 then c.nd + 1 else c.nd⟩ := by
    unfold Cfg.add
    rw [if_neg (by simpa using hl)]
  have hlits : (c.add l).lits = c.lits.setIfInBounds (l.natAbs - 1) l := by rw [e]
  have hnd : (c.add l).nd = (if c.lits.getD (l.natAbs - 1) 0 = 0 then c.nd + 1 else c.nd) := by
    rw [e]; simp
  have hget : ∀ k, (c.add l).lits.getD k 0 = if k = l.natAbs - 1 then l else c.lits.getD k 0 := by
    intro k
    rw [hlits, getD_set]
    by_cases hk : k = l.natAbs - 1
    · rw [if_pos ⟨hk, hi⟩, if_pos hk]
    · rw [if_neg (fun h => hk h.1), if_neg hk]
  have hok : CfgOK n (c.add l) := by
    refine ⟨by rw [hlits, Array.size_setIfInBounds]; exact hc.size, ?_, ?_⟩
    · intro k hk
      rw [hget]
      by_cases hki : k = l.natAbs - 1
      · rw [if_pos hki]; exact Or.inr (by omega)
      · rw [if_neg hki]; exact hc.slot k hk
    · rw [hnd, decided_length, hlits, Array.toList_setIfInBounds,
        List.countP_set (by simpa using hi), hc.nd, decided_length, Array.getElem_toList,
        ← getD_of_lt _ _ hi]
      have hp : ((l != 0) = true) := by simpa using hl
      rw [if_pos hp]
      rcases hslot with h | h
      · rw [h]; simp
      · rw [h, if_neg hl, if_pos hp]
        have : 0 < c.lits.toList.countP (· != 0) := by
          rw [List.countP_pos_iff]
          refine ⟨l, ?_, hp⟩
          rw [Array.mem_toList_iff, Array.mem_iff_getElem]
          exact ⟨l.natAbs - 1, hi, by rw [← getD_of_lt _ _ hi]; exact h⟩
        omega
  refine ⟨hok, ?_, by rw [e], by rw [e], hnd, hslot⟩
  intro x
  rw [mem_decided_char n _ hok x, mem_decided_char n c hc x, hget]
  constructor
  · rintro ⟨hx0, hxr, hx⟩
    by_cases hk : x.natAbs - 1 = l.natAbs - 1
    · rw [if_pos hk] at hx; exact Or.inr hx.symm
    · rw [if_neg hk] at hx; exact Or.inl ⟨hx0, hxr, hx⟩
  · rintro (⟨hx0, hxr, hx⟩ | hx)
    · refine ⟨hx0, hxr, ?_⟩
      by_cases hk : x.natAbs - 1 = l.natAbs - 1
      · rw [if_pos hk]
        rw [hk] at hx
        rcases hslot with h | h
        · rw [h] at hx; exact absurd hx.symm hx0
        · rw [h] at hx; exact hx
      · rw [if_neg hk]; exact hx
    · subst hx
      exact ⟨hl, hr, by rw [if_pos rfl]⟩

theorem foldl_add_spec : ∀ (I : List Int) (c : Cfg), CfgOK n c →
    (∀ l ∈ I, l ≠ 0 ∧ l.natAbs ≤ n) → (∀ l ∈ I, (-l) ∉ c.decided) → (∀ l ∈ I, (-l) ∉ I) →
    CfgOK n (I.foldl Cfg.add c) ∧ (∀ l, l ∈ (I.foldl Cfg.add c).decided ↔ l ∈ c.decided ∨ l ∈ I) ∧
    (I.foldl Cfg.add c).st = c.st ∧ (c.stc = false → (I.foldl Cfg.add c).stc = false) := by
  intro I
  induction I with
  | nil => intro c hc _ _ _; exact ⟨hc, fun l => by simp, rfl, id⟩
  | cons a I ih =>
    intro c hc hI hcons hII
    rw [List.foldl_cons]
    obtain ⟨ha0, har⟩ := hI a (List.mem_cons_self ..)
    obtain ⟨h1, h2, h3, h4, _, _⟩ := add_spec n c hc a ha0 har (hcons a (List.mem_cons_self ..))
    obtain ⟨k1, k2, k3, k4⟩ := ih (c.add a) h1 (fun l hl => hI l (List.mem_cons_of_mem _ hl))
      (fun l hl hm => by
        rcases (h2 _).mp hm with hm | hm
        · exact hcons l (List.mem_cons_of_mem _ hl) hm
        · exact hII l (List.mem_cons_of_mem _ hl) (by rw [hm]; exact List.mem_cons_self ..))
      (fun l hl hm => hII l (List.mem_cons_of_mem _ hl) (List.mem_cons_of_mem _ hm))
    refine ⟨k1, fun l => ?_, k3.trans h3, fun _ => k4 h4⟩
    rw [k2, h2, List.mem_cons, or_assoc]

theorem foldl_add_nd : ∀ (I : List Int) (c : Cfg), CfgOK n c →
    (∀ l ∈ I, l ≠ 0 ∧ l.natAbs ≤ n) → (∀ l ∈ I, ∀ x ∈ c.decided, x.natAbs ≠ l.natAbs) →
    (I.map Int.natAbs).Nodup → (I.foldl Cfg.add c).nd = c.nd + I.length := by
  intro I
  induction I with
  | nil => intro c _ _ _ _; rfl
  | cons a I ih =>
    intro c hc hI hdis hnd
    rw [List.foldl_cons]
    obtain ⟨ha0, har⟩ := hI a (List.mem_cons_self ..)
    have hcons : (-a) ∉ c.decided := fun h => hdis a (List.mem_cons_self ..) _ h (Int.natAbs_neg a)
    obtain ⟨h1, h2, _, _, h5, h6⟩ := add_spec n c hc a ha0 har hcons
    rw [List.map_cons, List.nodup_cons] at hnd
    have hslot : c.lits.getD (a.natAbs - 1) 0 = 0 := by
      rcases h6 with h | h
      · exact h
      · exfalso
        exact hdis a (List.mem_cons_self ..) a ((mem_decided_char n c hc a).mpr ⟨ha0, har, h⟩) rfl
    rw [if_pos hslot] at h5
    rw [ih (c.add a) h1 (fun l hl => hI l (List.mem_cons_of_mem _ hl)) ?_ hnd.2, h5, List.length_cons]
    · omega
    · intro l hl x hx
      rcases (h2 x).mp hx with hx | hx
      · exact hdis l (List.mem_cons_of_mem _ hl) x hx
      · subst hx
        intro he
        exact hnd.1 (he ▸ List.mem_map_of_mem hl)

theorem cfgOK_stcFalse (c : Cfg) (hc : CfgOK n c) : CfgOK n { c with stc := false } :=
  ⟨hc.size, hc.slot, hc.nd⟩

/-- adding literals that do not contradict the configuration -/
theorem cfgOK_extend (c : Cfg) (hc : CfgOK n c) (I : List Int) (hI : ∀ l ∈ I, l ≠ 0 ∧ l.natAbs ≤ n)
    (hcons : ∀ l ∈ I, (-l) ∉ c.decided) (hII : ∀ l ∈ I, (-l) ∉ I) :
    CfgOK n (c.extend I) ∧ (∀ l, l ∈ (c.extend I).decided ↔ l ∈ c.decided ∨ l ∈ I) ∧
    (c.extend I).st = c.st ∧ (c.extend I).stc = false := by
  obtain ⟨h1, h2, h3, h4⟩ := foldl_add_spec n I { c with stc := false } (cfgOK_stcFalse n c hc) hI hcons hII
  exact ⟨h1, h2, h3, h4 rfl⟩

theorem extend_nd (c : Cfg) (hc : CfgOK n c) (I : List Int) (hI : ∀ l ∈ I, l ≠ 0 ∧ l.natAbs ≤ n)
    (hdis : ∀ l ∈ I, ∀ x ∈ c.decided, x.natAbs ≠ l.natAbs) (hnd : (I.map Int.natAbs).Nodup) :
    (c.extend I).nd = c.nd + I.length :=
  foldl_add_nd n I { c with stc := false } (cfgOK_stcFalse n c hc) hI hdis hnd

theorem cfgOK_ofLits (I : List Int) (hI : ∀ l ∈ I, l ≠ 0 ∧ l.natAbs ≤ n) (hII : ∀ l ∈ I, (-l) ∉ I) :
    CfgOK n (Cfg.ofLits I n) ∧ (∀ l, l ∈ (Cfg.ofLits I n).decided ↔ l ∈ I) ∧
    (Cfg.ofLits I n).st = none ∧ (Cfg.ofLits I n).stc = false := by
  obtain ⟨h1, h2, h3, h4⟩ := cfgOK_extend n (Cfg.empty n none) (cfgOK_empty n none) I hI
    (fun l _ => by rw [decided_empty]; exact List.not_mem_nil) hII
  refine ⟨h1, fun l => ?_, h3, h4⟩
  show l ∈ ((Cfg.empty n none).extend I).decided ↔ _
  rw [h2, decided_empty]; simp

/-- two configurations over disjoint variables -/
theorem cfgOK_fromDisjoint (l r : Cfg) (hl : CfgOK n l) (hr : CfgOK n r)
    (hdis : ∀ x ∈ l.decided, ∀ y ∈ r.decided, x.natAbs ≠ y.natAbs) :
    CfgOK n (Cfg.fromDisjoint l r n) ∧
    (∀ x, x ∈ (Cfg.fromDisjoint l r n).decided ↔ x ∈ l.decided ∨ x ∈ r.decided) ∧
    (Cfg.fromDisjoint l r n).nd = l.nd + r.nd ∧
    (Cfg.fromDisjoint l r n).stc = false ∧
    ((Cfg.fromDisjoint l r n).st = none ∨ (Cfg.fromDisjoint l r n).st = l.st ∨ (Cfg.fromDisjoint l r n).st = r.st) := by
  generalize hst : (match l.st, r.st with
    | some a, some b => if l.nd ≥ r.nd then some a else some b
    | some a, none => some a
    | none, some b => some b
    | none, none => none : Option (Array Bool)) = st
  have hstv : st = none ∨ st = l.st ∨ st = r.st := by
    rw [← hst]
    cases l.st with
    | none => cases r.st with
      | none => exact Or.inl rfl
      | some b => exact Or.inr (Or.inr rfl)
    | some a => cases r.st with
      | none => exact Or.inr (Or.inl rfl)
      | some b =>
        show (if l.nd ≥ r.nd then some a else some b) = none ∨ _ ∨ _
        split
        · exact Or.inr (Or.inl rfl)
        · exact Or.inr (Or.inr rfl)
  have e : Cfg.fromDisjoint l r n = ((Cfg.empty n st).extend l.decided).extend r.decided := by
    rw [← hst]; rfl
  rw [e]
  obtain ⟨a1, a2, a3, a4⟩ := cfgOK_extend n (Cfg.empty n st) (cfgOK_empty n st) l.decided
    (decided_range n l hl) (fun x _ => by rw [decided_empty]; exact List.not_mem_nil)
    (fun x hx => neg_not_mem_decided n l hl x hx)
  have a2' : ∀ x, x ∈ ((Cfg.empty n st).extend l.decided).decided ↔ x ∈ l.decided := by
    intro x; rw [a2, decided_empty]; simp
  obtain ⟨b1, b2, b3, b4⟩ := cfgOK_extend n _ a1 r.decided
    (decided_range n r hr)
    (fun y hy hm => hdis _ ((a2' _).mp hm) y hy (Int.natAbs_neg y))
    (fun x hx => neg_not_mem_decided n r hr x hx)
  refine ⟨b1, fun x => by rw [b2, a2'], ?_, b4, ?_⟩
  · rw [extend_nd n _ a1 r.decided (decided_range n r hr)
        (fun y hy x hx => hdis x ((a2' x).mp hx) y hy) (decided_inter n r hr).2,
      extend_nd n _ (cfgOK_empty n st) l.decided (decided_range n l hl)
        (fun y _ x hx => by rw [decided_empty] at hx; cases hx) (decided_inter n l hl).2,
      hl.nd, hr.nd]
    show 0 + _ + _ = _
    omega
  · rw [b3, a3]
    exact hstv

theorem stOK_fromDisjoint (l r : Cfg) (hl : CfgOK n l) (hr : CfgOK n r)
    (hdis : ∀ x ∈ l.decided, ∀ y ∈ r.decided, x.natAbs ≠ y.natAbs)
    (sl : StOK nodes l) (sr : StOK nodes r) : StOK nodes (Cfg.fromDisjoint l r n) := by
  obtain ⟨_, h2, _, h4, h5⟩ := cfgOK_fromDisjoint n l r hl hr hdis
  have key : ∀ c : Cfg, StOK nodes c → (∀ x ∈ c.decided, x ∈ (Cfg.fromDisjoint l r n).decided) →
      (Cfg.fromDisjoint l r n).st = c.st → StOK nodes (Cfg.fromDisjoint l r n) := by
    intro c sc hsub hst
    unfold StOK at sc ⊢
    rw [hst]
    cases hc : c.st with
    | none => exact h4
    | some m =>
      rw [hc] at sc
      obtain ⟨S, hS, hp, _⟩ := sc
      refine ⟨S, fun x hx => ?_, hp, fun h => by rw [h4] at h; cases h⟩
      have := hS x hx
      unfold negs at this ⊢
      rw [List.mem_map] at this ⊢
      obtain ⟨y, hy, hyx⟩ := this
      exact ⟨y, hsub y hy, hyx⟩
  rcases h5 with h | h | h
  · unfold StOK; rw [h]; exact h4
  · exact key l sl (fun x hx => (h2 x).mpr (Or.inl hx)) h
  · exact key r sr (fun x hx => (h2 x).mpr (Or.inr hx)) h

/-- `covers` / `conflicts` in terms of `decided` -/
theorem covers_iff (c : Cfg) (hc : CfgOK n c) (I : List Int) (hI : ∀ l ∈ I, l ≠ 0 → l.natAbs ≤ n) :
    c.covers I = true ↔ ∀ l ∈ I, l ≠ 0 → l ∈ c.decided := by
  unfold Cfg.covers
  rw [List.all_eq_true]
  constructor
  · intro h l hl h0
    rw [mem_decided_iff n c hc l h0 (hI l hl h0)]
    exact h l (List.mem_filter.mpr ⟨hl, by simpa using h0⟩)
  · intro h l hl
    obtain ⟨hl1, hl2⟩ := List.mem_filter.mp hl
    have h0 : l ≠ 0 := by simpa using hl2
    rw [← mem_decided_iff n c hc l h0 (hI l hl1 h0)]
    exact h l hl1 h0

theorem conflicts_iff (c : Cfg) (hc : CfgOK n c) (I : List Int) (hI : ∀ l ∈ I, l ≠ 0 → l.natAbs ≤ n) :
    c.conflicts I = true ↔ ∃ l ∈ I, l ≠ 0 ∧ (-l) ∈ c.decided := by
  unfold Cfg.conflicts
  rw [List.any_eq_true]
  constructor
  · rintro ⟨l, hl, h⟩
    obtain ⟨hl1, hl2⟩ := List.mem_filter.mp hl
    have h0 : l ≠ 0 := by simpa using hl2
    refine ⟨l, hl1, h0, ?_⟩
    rw [mem_decided_iff n c hc (-l) (by omega) (by rw [Int.natAbs_neg]; exact hI l hl1 h0)]
    exact h
  · rintro ⟨l, hl, h0, h⟩
    refine ⟨l, List.mem_filter.mpr ⟨hl, by simpa using h0⟩, ?_⟩
    rw [← mem_decided_iff n c hc (-l) (by omega) (by rw [Int.natAbs_neg]; exact hI l hl h0)]
    exact h

/-! ### the SAT state -/

/-- `propagateAll_spec` of `Proofs/SatState.lean` for an arbitrary root -/
theorem propagateAll_spec_root (htopo : Topo nodes) (hu : LitUnique nodes) (root : Nat) (hroot : root < nodes.length) :
    ∀ (A : List Int) (m : Array Bool) (S : List Int), SatS.IsPure nodes S m →
      (SatS.propagateAll nodes root m A).2 = !SatS.pureMark nodes (negs A ++ S) root ∧
      ((SatS.propagateAll nodes root m A).2 = true →
        SatS.IsPure nodes (negs A ++ S) (SatS.propagateAll nodes root m A).1) := by
  unfold negs
  intro A
  induction A with
  | nil =>
    intro m S hm
    rw [SatS.propagateAll_nil]
    exact ⟨by rw [hm.2 _ hroot]; rfl, fun _ => hm⟩
  | cons f rest ih =>
    intro m S hm
    cases hl : MS.leafIx nodes (-f) with
    | none =>
      rw [SatS.propagateAll_cons_none nodes _ m f rest hl]
      have hfun : SatS.pureMark nodes ((f :: rest).map (fun f => -f) ++ S)
          = SatS.pureMark nodes (rest.map (fun f => -f) ++ S) :=
        SatS.pureMark_cons_absent nodes htopo (-f) _ hl
      obtain ⟨h1, h2⟩ := ih m S hm
      refine ⟨by rw [hfun]; exact h1, fun hb => ?_⟩
      obtain ⟨h3, h4⟩ := h2 hb
      exact ⟨h3, fun j hj => by rw [hfun]; exact h4 j hj⟩
    | some i =>
      obtain ⟨hi, hie⟩ := MS.leafIx_some nodes (-f) i hl
      rw [SatS.propagateAll_cons_some nodes _ m f rest i hl]
      have hstep := hm.step htopo hu i hi (-f) hie
      have hfun : SatS.pureMark nodes ((f :: rest).map (fun f => -f) ++ S)
          = SatS.pureMark nodes (rest.map (fun f => -f) ++ (-f) :: S) := by
        apply SatS.pureMark_perm nodes htopo
        intro x
        simp only [List.map_cons, List.cons_append, List.mem_cons, List.mem_append]
        constructor
        · rintro (h | h | h)
          · exact Or.inr (Or.inl h)
          · exact Or.inl h
          · exact Or.inr (Or.inr h)
        · rintro (h | h | h)
          · exact Or.inr (Or.inl h)
          · exact Or.inl h
          · exact Or.inr (Or.inr h)
      by_cases hr : SatS.markOf (SatS.propagateMark nodes nodes.length m i) root = true
      · rw [if_pos hr]
        refine ⟨?_, fun hb => by cases hb⟩
        rw [hstep.2 _ hroot] at hr
        have : SatS.pureMark nodes ((f :: rest).map (fun f => -f) ++ S) root = true := by
          rw [hfun]
          exact SatS.pureMark_mono nodes htopo _ _
            (fun _ _ x _ hx => List.mem_append_right _ hx) _ hr
        rw [this]; rfl
      · rw [if_neg hr]
        obtain ⟨h1, h2⟩ := ih _ ((-f) :: S) hstep
        refine ⟨by rw [hfun]; exact h1, fun hb => ?_⟩
        obtain ⟨h3, h4⟩ := h2 hb
        exact ⟨h3, fun j hj => by rw [hfun]; exact h4 j hj⟩

theorem isPure_fresh (htopo : Topo nodes) : SatS.IsPure nodes [] (ctxOf nodes n).fresh :=
  SatS.isPure_replicate nodes htopo

theorem isPure_perm (htopo : Topo nodes) (S T : List Int) (h : ∀ x, x ∈ S ↔ x ∈ T) (m : Array Bool)
    (hm : SatS.IsPure nodes S m) : SatS.IsPure nodes T m :=
  ⟨hm.1, fun j hj => by rw [← SatS.pureMark_perm nodes htopo S T h]; exact hm.2 j hj⟩

theorem noAC_iff (A : List Int) :
    A.any (fun f => (coreOf nodes n).contains (-f)) = true ↔ ¬ NoAC nodes n A := by
  unfold NoAC
  rw [List.any_eq_true]
  constructor
  · rintro ⟨f, hf, hc⟩ h
    exact h f hf (List.contains_iff_mem.mp hc)
  · intro h
    apply Classical.byContradiction
    intro hne
    apply h
    intro l hl hm
    exact hne ⟨l, hl, List.contains_iff_mem.mpr hm⟩

/-- the common core of `satSub_spec` and `satSub_update`: `T` has the members of `negs A` and `S` -/
theorem satSub_core (htopo : Topo nodes) (hu : LitUnique nodes) (root : Nat) (hroot : root < nodes.length)
    (hc : count nodes root ≠ 0) (A : List Int) (S T : List Int) (m : Array Bool)
    (hT : ∀ x, x ∈ T ↔ x ∈ negs A ∨ x ∈ S) (hm : SatS.IsPure nodes S m) :
    ((satSub (ctxOf nodes n) root m A).2 = true ↔ (NoAC nodes n A ∧ countA nodes T root ≠ 0)) ∧
    ((satSub (ctxOf nodes n) root m A).2 = true →
      SatS.IsPure nodes T (satSub (ctxOf nodes n) root m A).1) := by
  have e : satSub (ctxOf nodes n) root m A
      = if A.any (fun f => (coreOf nodes n).contains (-f)) then (m, false)
        else SatS.propagateAll nodes root m A := rfl
  rw [e]
  by_cases hany : A.any (fun f => (coreOf nodes n).contains (-f)) = true
  · rw [if_pos hany]
    have := (noAC_iff nodes n A).mp hany
    exact ⟨⟨fun h => (by cases h), fun h => absurd h.1 this⟩, fun h => (by cases h)⟩
  · rw [if_neg hany]
    have hno : NoAC nodes n A := by
      apply Classical.byContradiction
      intro h
      exact hany ((noAC_iff nodes n A).mpr h)
    obtain ⟨h1, h2⟩ := propagateAll_spec_root nodes htopo hu root hroot A m S hm
    have hperm : ∀ x, x ∈ negs A ++ S ↔ x ∈ T := fun x => by rw [List.mem_append, hT]
    have hfun := SatS.pureMark_perm nodes htopo _ _ hperm
    refine ⟨?_, fun hb => isPure_perm nodes htopo _ _ hperm _ (h2 hb)⟩
    rw [h1, hfun]
    have hiff := satMark_iff nodes T root
    have hpm : SatS.pureMark nodes T root = ((satMarks nodes T).getD root (false, 0)).1 := rfl
    rw [← hpm] at hiff
    constructor
    · intro h
      refine ⟨hno, fun h0 => ?_⟩
      rcases hiff.mpr h0 with h' | h'
      · rw [h'] at h; cases h
      · exact hc h'
    · rintro ⟨_, h0⟩
      cases hp : SatS.pureMark nodes T root with
      | false => rfl
      | true => exact absurd (hiff.mp (Or.inl hp)) h0

theorem mem_negs_append (P A : List Int) (x : Int) :
    x ∈ negs (P ++ A) ↔ x ∈ negs A ∨ x ∈ negs P := by
  unfold negs
  rw [List.map_append, List.mem_append]
  exact Or.comm

/-- `satSub` on a state that is pure for the complements of `P` (at a node that has a model): the
answer is "no literal of `A` is excluded by the core and `P ++ A` is a partial model of the node";
when it is `true` the state left behind is pure for `P ++ A` -/
theorem satSub_spec (h : WF nodes n) (hu : LitUnique nodes) (root : Nat) (hroot : root < nodes.length)
    (hc : count nodes root ≠ 0) (P A : List Int) (S : List Int) (m : Array Bool)
    (hS : ∀ x, x ∈ S ↔ x ∈ negs P) (hm : SatS.IsPure nodes S m) :
    ((satSub (ctxOf nodes n) root m A).2 = true ↔ (NoAC nodes n A ∧ SatAt nodes root (P ++ A))) ∧
    ((satSub (ctxOf nodes n) root m A).2 = true →
      SatS.IsPure nodes (negs (P ++ A)) (satSub (ctxOf nodes n) root m A).1) :=
  satSub_core nodes n h.topo hu root hroot hc A S (negs (P ++ A)) m
    (fun x => by rw [mem_negs_append, hS]) hm

/-- a state that is pure for a part `S` of the literals, after all literals `P` were propagated and
the answer was `true`: pure for `P` -/
theorem satSub_update (h : WF nodes n) (hu : LitUnique nodes) (root : Nat) (hroot : root < nodes.length)
    (hc : count nodes root ≠ 0) (P : List Int) (S : List Int) (m : Array Bool)
    (hS : ∀ x ∈ S, x ∈ negs P) (hm : SatS.IsPure nodes S m)
    (hP : NoAC nodes n P) (hsat : SatAt nodes root P) :
    (satSub (ctxOf nodes n) root m P).2 = true ∧
    SatS.IsPure nodes (negs P) (satSub (ctxOf nodes n) root m P).1 := by
  obtain ⟨h1, h2⟩ := satSub_core nodes n h.topo hu root hroot hc P S (negs P) m
    (fun x => ⟨Or.inl, fun hx => hx.elim id (hS x)⟩) hm
  have hb := h1.mpr ⟨hP, hsat⟩
  exact ⟨hb, h2 hb⟩

theorem decided_of_lits (c c' : Cfg) (h : c'.lits = c.lits) : c'.decided = c.decided := by
  unfold Cfg.decided; rw [h]

/-- `update_sat_state` on a configuration that is a partial model of the node: afterwards the state
exists and is pure for all literals; nothing else changes -/
theorem updateSat_spec (h : WF nodes n) (hu : LitUnique nodes) (root : Nat) (hroot : root < nodes.length)
    (hc : count nodes root ≠ 0) (c : Cfg) (hok : CfgOK n c) (hst : StOK nodes c)
    (hnoac : NoAC nodes n c.decided) (hsat : SatAt nodes root c.decided) :
    (c.updateSat (ctxOf nodes n) root).lits = c.lits ∧ (c.updateSat (ctxOf nodes n) root).nd = c.nd ∧
    ∃ m, (c.updateSat (ctxOf nodes n) root).st = some m ∧ SatS.IsPure nodes (negs c.decided) m := by
  have _ := hok
  unfold Cfg.updateSat
  unfold StOK at hst
  by_cases hstc : c.stc = true
  · rw [if_pos hstc]
    refine ⟨rfl, rfl, ?_⟩
    cases hcs : c.st with
    | none => rw [hcs] at hst; rw [hst] at hstc; cases hstc
    | some m =>
      rw [hcs] at hst
      obtain ⟨S, hS, hp, hall⟩ := hst
      exact ⟨m, rfl, isPure_perm nodes h.topo S _ (fun x => ⟨hS x, hall hstc x⟩) m hp⟩
  · rw [if_neg hstc]
    cases hcs : c.st with
    | none =>
      obtain ⟨_, h2⟩ := satSub_update nodes n h hu root hroot hc c.decided [] (ctxOf nodes n).fresh
        (fun x hx => by cases hx) (isPure_fresh nodes n h.topo) hnoac hsat
      exact ⟨rfl, rfl, _, rfl, h2⟩
    | some m0 =>
      rw [hcs] at hst
      obtain ⟨S, hS, hp, _⟩ := hst
      obtain ⟨_, h2⟩ := satSub_update nodes n h hu root hroot hc c.decided S m0 hS hp hnoac hsat
      simp only [hcs, Option.getD_some]
      exact ⟨trivial, trivial, _, rfl, h2⟩

theorem stOK_updateSat (h : WF nodes n) (hu : LitUnique nodes) (root : Nat) (hroot : root < nodes.length)
    (hc : count nodes root ≠ 0) (c : Cfg) (hok : CfgOK n c) (hst : StOK nodes c)
    (hnoac : NoAC nodes n c.decided) (hsat : SatAt nodes root c.decided) :
    StOK nodes (c.updateSat (ctxOf nodes n) root) := by
  obtain ⟨h1, _, m, h3, h4⟩ := updateSat_spec nodes n h hu root hroot hc c hok hst hnoac hsat
  unfold StOK
  rw [h3]
  rw [decided_of_lits c _ h1]
  exact ⟨_, fun x hx => hx, h4, fun _ x hx => hx⟩

/-- a state pure for all literals, flagged complete -/
theorem stOK_setSat (c : Cfg) (m : Array Bool) (hm : SatS.IsPure nodes (negs c.decided) m) :
    StOK nodes (c.setSat m) := by
  unfold StOK
  show ∃ S : List Int, _
  exact ⟨_, fun x hx => hx, hm, fun _ x hx => hx⟩

end Ddnnf.TW
