/-
  The bottom-up pass: the result stored for every node is `ResAt`.
-/
import DdnnfVerif.Proofs.TW.And
import DdnnfVerif.Proofs.TW.Or
namespace Ddnnf.TW

variable (nodes : List NType) (n : Nat)

namespace Nodes

/-! ### counts -/

theorem count_eq (i : Nat) (hi : i < nodes.length) :
    count nodes i = fCount nodes[i] (fun j => if j < i then count nodes j else 0) :=
  val_eq 0 fCount nodes i hi

theorem count_and_ne (ht : Topo nodes) (i : Nat) (hi : i < nodes.length) (cs : List Nat)
    (hnd : nodes[i] = .and cs) : count nodes i ≠ 0 ↔ ∀ c ∈ cs, count nodes c ≠ 0 := by
  rw [← satAt_nil, satAt_and nodes ht i hi cs hnd]
  constructor
  · intro h c hc; exact (satAt_nil nodes c).mp (h c hc)
  · intro h c hc; exact (satAt_nil nodes c).mpr (h c hc)

theorem count_or_ne (ht : Topo nodes) (i : Nat) (hi : i < nodes.length) (cs : List Nat)
    (hnd : nodes[i] = .or cs) : count nodes i ≠ 0 ↔ ∃ c ∈ cs, count nodes c ≠ 0 := by
  rw [← satAt_nil, satAt_or nodes ht i hi cs hnd]
  constructor
  · rintro ⟨c, hc, h⟩; exact ⟨c, hc, (satAt_nil nodes c).mp h⟩
  · rintro ⟨c, hc, h⟩; exact ⟨c, hc, (satAt_nil nodes c).mpr h⟩

/-! ### `Res.ofSample` -/

theorem isEmpty_iff (s : Sample) : s.isEmpty = true ↔ s.all = [] := by
  unfold Sample.isEmpty Sample.all
  simp [List.isEmpty_iff]

theorem isVoid_ofSample (s : Sample) : isVoid (Res.ofSample s) = false := by
  unfold Res.ofSample
  split <;> rfl

theorem ofSample_eq_sample (s s' : Sample) (h : Res.ofSample s = .sample s') :
    s' = s ∧ s.all ≠ [] := by
  unfold Res.ofSample at h
  split at h
  · cases h
  · rename_i he
    injection h with h
    refine ⟨h.symm, fun ha => he ((isEmpty_iff s).mpr ha)⟩

theorem ofSample_eq_empty (s : Sample) (h : Res.ofSample s = .empty) : s.all = [] := by
  unfold Res.ofSample at h
  split at h
  · rename_i he
    exact (isEmpty_iff s).mp he
  · cases h

theorem resSample_eq_some (r : Res) (s : Sample) : resSample r = some s ↔ r = .sample s := by
  cases r <;> simp [resSample]

/-! ### moving a sample to another node -/

theorem sampleFor_node (t p p' : Nat) (V : List Nat) (s : Sample)
    (hiff : ∀ L, Within V L → (SatAt nodes p' L ↔ SatAt nodes p L))
    (hs : SampleFor nodes n t p' V s) : SampleFor nodes n t p V s := by
  refine ⟨⟨hs.inv.vars_nodup, hs.inv.vars_mem, ?_, hs.inv.complete⟩, ?_, hs.nonempty⟩
  · intro c hc
    have := hs.inv.cfgs c hc
    exact ⟨this.ok, this.st, this.within, (hiff _ this.within).mp this.sat, this.noac, this.nonempty⟩
  · intro I h1 h2 h3 h4 h5
    exact hs.cover I h1 h2 h3 h4 ((hiff I h4).mpr h5)

theorem sampleInv_transfer (p p' : Nat) (V V' : List Nat) (s : Sample)
    (hVV : ∀ v, v ∈ V' ↔ v ∈ V) (himp : ∀ L, SatAt nodes p' L → SatAt nodes p L)
    (hs : SampleInv nodes n p' V' s) : SampleInv nodes n p V s := by
  refine ⟨hs.vars_nodup, fun v => (hs.vars_mem v).trans (hVV v), ?_, hs.complete⟩
  intro c hc
  have := hs.cfgs c hc
  exact ⟨this.ok, this.st, fun l hl => ⟨(this.within l hl).1, (hVV _).mp (this.within l hl).2⟩,
    himp _ this.sat, this.noac, this.nonempty⟩

theorem covers_transfer (t : Nat) (V V' : List Nat) (Q : List Int → Prop) (s : Sample)
    (hVV : ∀ v, v ∈ V → v ∈ V') (hs : Covers t V' Q s) : Covers t V Q s := by
  intro I h1 h2 h3 h4 h5
  exact hs I h1 h2 h3 (fun l hl => ⟨(h4 l hl).1, hVV _ (h4 l hl).2⟩) h5

/-! ### the children that have a sample -/

def sampled (get : Nat → Res) (cs : List Nat) : List (Nat × Sample) :=
  cs.filterMap fun c => (resSample (get c)).map fun s => (c, s)

theorem sampled_cons_none (get : Nat → Res) (c : Nat) (cs : List Nat) (hr : resSample (get c) = none) :
    sampled get (c :: cs) = sampled get cs := by
  simp [sampled, hr]

theorem sampled_cons_some (get : Nat → Res) (c : Nat) (cs : List Nat) (s : Sample)
    (hr : resSample (get c) = some s) : sampled get (c :: cs) = (c, s) :: sampled get cs := by
  simp [sampled, hr]

theorem sampled_snd (get : Nat → Res) (cs : List Nat) :
    (sampled get cs).map Prod.snd = (cs.map get).filterMap resSample := by
  induction cs with
  | nil => rfl
  | cons c cs ih =>
    unfold sampled at ih ⊢
    rw [List.map_cons, List.filterMap_cons, List.filterMap_cons]
    cases hr : resSample (get c) with
    | none => simpa using ih
    | some s => simpa using ih

theorem mem_sampled (get : Nat → Res) (cs : List Nat) (d : Nat) (s : Sample) :
    (d, s) ∈ sampled get cs ↔ d ∈ cs ∧ get d = .sample s := by
  unfold sampled
  rw [List.mem_filterMap]
  constructor
  · rintro ⟨c, hc, he⟩
    cases hr : resSample (get c) with
    | none => rw [hr] at he; cases he
    | some s' =>
      rw [hr] at he
      simp only [Option.map_some, Option.some.injEq, Prod.mk.injEq] at he
      obtain ⟨rfl, rfl⟩ := he
      exact ⟨hc, (resSample_eq_some _ _).mp hr⟩
  · rintro ⟨hc, he⟩
    exact ⟨d, hc, by rw [(resSample_eq_some _ _).mpr he]; rfl⟩

theorem sampled_fst_nodup (get : Nat → Res) (f : Nat → List Nat) (cs : List Nat)
    (h : ((cs.map f).flatten).Nodup)
    (hne : ∀ c ∈ cs, ∀ s, get c = .sample s → f c ≠ []) :
    ((sampled get cs).map Prod.fst).Nodup := by
  induction cs with
  | nil => exact List.nodup_nil
  | cons c cs ih =>
    rw [List.map_cons, List.flatten_cons, List.nodup_append] at h
    obtain ⟨_, h2, h3⟩ := h
    have ih' := ih h2 (fun c' hc' => hne c' (List.mem_cons_of_mem _ hc'))
    cases hr : resSample (get c) with
    | none => rw [sampled_cons_none get c cs hr]; exact ih'
    | some s =>
      rw [sampled_cons_some get c cs s hr, List.map_cons]
      rw [List.nodup_cons]
      refine ⟨?_, ih'⟩
      intro hmem
      rw [List.mem_map] at hmem
      obtain ⟨⟨d, s'⟩, hds, hd⟩ := hmem
      have hd' : d = c := hd
      subst hd'
      have hdcs := ((mem_sampled get cs d s').mp hds).1
      have hfne := hne d (List.mem_cons_self ..) s ((resSample_eq_some _ _).mp hr)
      obtain ⟨v, hv⟩ := List.exists_mem_of_ne_nil _ hfne
      exact h3 v hv v (List.mem_flatten.mpr ⟨f d, List.mem_map.mpr ⟨d, hdcs, rfl⟩, hv⟩) rfl

/-- if no child has a sample, the list of samples is empty -/
theorem filterMap_nil_of_all_empty (ss : List Sample) (h : ¬ ∃ s ∈ ss, s.all ≠ [])
    (hne : ∀ s ∈ ss, s.all ≠ []) : ss = [] := by
  cases ss with
  | nil => rfl
  | cons s ss => exact (h ⟨s, List.mem_cons_self .., hne s (List.mem_cons_self ..)⟩).elim

theorem mem_samples (get : Nat → Res) (cs : List Nat) (s : Sample) :
    s ∈ (cs.map get).filterMap resSample ↔ ∃ c ∈ cs, get c = .sample s := by
  rw [List.mem_filterMap]
  constructor
  · rintro ⟨r, hr, hs⟩
    rw [List.mem_map] at hr
    obtain ⟨c, hc, rfl⟩ := hr
    exact ⟨c, hc, (resSample_eq_some _ _).mp hs⟩
  · rintro ⟨c, hc, hs⟩
    exact ⟨get c, List.mem_map.mpr ⟨c, hc, rfl⟩, (resSample_eq_some _ _).mpr hs⟩

/-- a sample stored for a node makes the node's variable list non-empty -/
theorem vars_ne_nil_of_sample (V : List Nat) (s : Sample) (hall : s.all ≠ [])
    (hcfg : ∀ c ∈ s.all, c.decided ≠ [] ∧ Within V c.decided) : V ≠ [] := by
  obtain ⟨c, hc⟩ := List.exists_mem_of_ne_nil _ hall
  obtain ⟨h1, h2⟩ := hcfg c hc
  obtain ⟨l, hl⟩ := List.exists_mem_of_ne_nil _ h1
  exact List.ne_nil_of_mem (h2 l hl).2

end Nodes

open Nodes

/-! ### the five kinds of nodes -/

theorem partialSample_lit (h : WF nodes n) (hu : LitUnique nodes) (hpos : 0 < count nodes (rootIx nodes))
    (t : Nat) (i : Nat) (hi : i < nodes.length) (l : Int) (hnd : nodes[i] = .lit l) :
    ResAt nodes n t i (.sample (Sample.ofLiteral l n)) := by
  have hl0 : l ≠ 0 := h.litnz i hi l hnd
  have hvars : vars nodes i = [l.natAbs] := vars_lit nodes i hi l hnd
  have hcnt : count nodes i = 1 := by rw [count_eq nodes i hi, hnd]; rfl
  have hall : (Sample.ofLiteral l n).all = [Cfg.ofLits [l] n] := rfl
  refine ⟨?_, ?_, (fun hs => by cases hs), ?_⟩
  · rw [hcnt]; simp [isVoid]
  · intro s hs
    injection hs with hs
    subst hs
    rw [hall]; exact List.cons_ne_nil _ _
  · intro s hs hlive
    injection hs with hs
    subst hs
    have hle : l.natAbs ≤ n := by
      have := hlive.1 l.natAbs (by rw [hvars]; exact List.mem_cons_self ..)
      exact ((mem_vars_root nodes n h _).mp this).2
    have hI : ∀ x ∈ [l], x ≠ 0 ∧ x.natAbs ≤ n := by
      intro x hx
      rw [List.mem_singleton] at hx
      subst hx
      exact ⟨hl0, hle⟩
    have hII : ∀ x ∈ [l], (-x) ∉ [l] := by
      intro x hx hnx
      rw [List.mem_singleton] at hx hnx
      omega
    obtain ⟨ok, hdec, hst, hstc⟩ := cfgOK_ofLits n [l] hI hII
    have hnd1 : (Cfg.ofLits [l] n).nd = 1 := by
      have := extend_nd n (Cfg.empty n none) (cfgOK_empty n none) [l] hI
        (fun _ _ x hx => by rw [decided_empty] at hx; cases hx) (by simp)
      exact this
    have hwithin : Within (vars nodes i) (Cfg.ofLits [l] n).decided := by
      intro x hx
      rw [hdec, List.mem_singleton] at hx
      subst hx
      exact ⟨hl0, by rw [hvars]; exact List.mem_cons_self ..⟩
    have hsat : SatAt nodes i (Cfg.ofLits [l] n).decided := by
      rw [satAt_lit nodes i hi l hnd, hdec, List.mem_singleton]
      omega
    have hne : (Cfg.ofLits [l] n).decided ≠ [] :=
      List.ne_nil_of_mem ((hdec l).mpr (List.mem_cons_self ..))
    have hcfg : CfgAt nodes n i (vars nodes i) (Cfg.ofLits [l] n) := by
      refine ⟨ok, ?_, hwithin, hsat, ?_, hne⟩
      · unfold StOK
        rw [hst]
        exact hstc
      · exact noAC_of_live nodes n h hu hpos i hi hlive _ (decided_inter n _ ok) hwithin hsat
    refine ⟨⟨?_, ?_, ?_, ?_⟩, ?_, ?_⟩
    · show [l.natAbs].Nodup
      simp
    · intro v
      rw [hvars]
      exact Iff.rfl
    · intro c hc
      rw [hall, List.mem_singleton] at hc
      subst hc
      exact hcfg
    · intro c hc
      have hc' : c ∈ [Cfg.ofLits [l] n] := hc
      rw [List.mem_singleton] at hc'
      subst hc'
      exact hnd1
    · intro I _ _ _ hW hS
      have hmem : ∀ x ∈ I, x = l := by
        intro x hx
        have hx2 := (hW x hx).2
        rw [hvars, List.mem_singleton] at hx2
        rw [satAt_lit nodes i hi l hnd] at hS
        rcases Int.natAbs_eq_natAbs_iff.mp hx2 with h1 | h1
        · exact h1
        · exact (hS (h1 ▸ hx)).elim
      show (Sample.ofLiteral l n).all.any (fun c => c.covers I) = true
      rw [hall, List.any_cons, List.any_nil, Bool.or_false]
      rw [covers_iff n _ ok I (fun x hx _ => by rw [hmem x hx]; exact hle)]
      intro x hx _
      rw [hdec, hmem x hx]
      exact List.mem_cons_self ..
    · rw [hall]; exact List.cons_ne_nil _ _

theorem partialSample_and (h : WF nodes n) (hu : LitUnique nodes)
    (t : Nat) (i : Nat) (hi : i < nodes.length) (cs : List Nat) (hnd : nodes[i] = .and cs)
    (get : Nat → Res) (hget : ∀ j, j < i → ResAt nodes n t j (get j)) (q : Queue) :
    ResAt nodes n t i (partialSample (ctxOf nodes n) t get i (.and cs) q).1 := by
  have hlt : ∀ c ∈ cs, c < i := fun c hc => h.topo i hi c (by rw [hnd]; exact hc)
  have hch : ∀ c ∈ cs, ResAt nodes n t c (get c) := fun c hc => hget c (hlt c hc)
  by_cases hv : (cs.map get).any isVoid = true
  · have hr : (partialSample (ctxOf nodes n) t get i (.and cs) q).1 = .void := by
      simp only [partialSample, hv, if_true]
    rw [hr]
    refine ⟨?_, (fun s hs => by cases hs), (fun hs => by cases hs), (fun s hs => by cases hs)⟩
    have : count nodes i = 0 := by
      apply Classical.byContradiction
      intro hc
      rw [List.any_eq_true] at hv
      obtain ⟨r, hr, hvr⟩ := hv
      rw [List.mem_map] at hr
      obtain ⟨c, hc', rfl⟩ := hr
      exact (count_and_ne nodes h.topo i hi cs hnd).mp hc c hc' ((hch c hc').void_iff.mp hvr)
    simp [isVoid, this]
  · have hr : (partialSample (ctxOf nodes n) t get i (.and cs) q).1
        = Res.ofSample (andMergeAll (ctxOf nodes n) t i ((cs.map get).filterMap resSample) q).1 := by
      simp only [partialSample, hv]
      rfl
    rw [hr]
    have hnv : ∀ c ∈ cs, isVoid (get c) = false := by
      intro c hc
      cases hb : isVoid (get c) with
      | false => rfl
      | true =>
        exact (hv (List.any_eq_true.mpr ⟨get c, List.mem_map.mpr ⟨c, hc, rfl⟩, hb⟩)).elim
    have hall : ∀ c ∈ cs, count nodes c ≠ 0 := by
      intro c hc hz
      have := (hch c hc).void_iff.mpr hz
      rw [hnv c hc] at this
      cases this
    have hss : ∀ s ∈ (cs.map get).filterMap resSample, s.all ≠ [] := by
      intro s hs
      obtain ⟨c, hc, hcs⟩ := (mem_samples get cs s).mp hs
      exact (hch c hc).sample_nonempty s hcs
    refine ⟨?_, ?_, ?_, ?_⟩
    · rw [isVoid_ofSample]
      have := (count_and_ne nodes h.topo i hi cs hnd).mpr hall
      simp [this]
    · intro s hs
      obtain ⟨rfl, h2⟩ := ofSample_eq_sample _ _ hs
      exact h2
    · intro hs
      have hnil := ofSample_eq_empty _ hs
      have hnone : ¬ ∃ s ∈ (cs.map get).filterMap resSample, s.all ≠ [] := fun hex =>
        andMergeAll_nonempty (ctxOf nodes n) t i _ q hex hnil
      have hssnil := filterMap_nil_of_all_empty _ hnone hss
      rw [vars_and nodes h.topo i hi cs hnd]
      apply List.eq_nil_iff_forall_not_mem.mpr
      intro v hv
      rw [mem_varsOf] at hv
      obtain ⟨c, hc, hvc⟩ := hv
      have hgc : get c = .empty := by
        cases hg : get c with
        | empty => rfl
        | void => have := hnv c hc; rw [hg] at this; cases this
        | sample s =>
          have : s ∈ (cs.map get).filterMap resSample := (mem_samples get cs s).mpr ⟨c, hc, hg⟩
          rw [hssnil] at this
          cases this
      rw [(hch c hc).empty_vars hgc] at hvc
      cases hvc
    · intro s hs hlive
      obtain ⟨rfl, hne⟩ := ofSample_eq_sample _ _ hs
      have hrange : ∀ v ∈ vars nodes i, 1 ≤ v ∧ v ≤ n := fun v hv =>
        (mem_vars_root nodes n h v).mp (hlive.1 v hv)
      have hclive : ∀ c ∈ cs, Live nodes c := fun c hc =>
        live_and_child nodes n h i hi cs hnd hall hlive c hc
      -- the sample of a child, seen from the and-node
      have hlift : ∀ d s, (d, s) ∈ sampled get cs → SampleFor nodes n t i (vars nodes d) s := by
        intro d s hds
        obtain ⟨hd, hg⟩ := (mem_sampled get cs d s).mp hds
        have hsd : SampleAt nodes n t d s := (hch d hd).sample s hg (hclive d hd)
        exact sampleFor_node nodes n t i d (vars nodes d) s
          (fun L hL => (satAt_and_child nodes n h i hi cs hnd hall d hd L hL).symm) hsd
      have hds : ((sampled get cs).map Prod.fst).Nodup := by
        apply sampled_fst_nodup get (vars nodes) cs (h.decomposable i hi cs hnd)
        intro c hc s hg
        have hsd : SampleAt nodes n t c s := (hch c hc).sample s hg (hclive c hc)
        exact vars_ne_nil_of_sample _ s hsd.nonempty
          (fun c' hc' => ⟨(hsd.inv.cfgs c' hc').nonempty, (hsd.inv.cfgs c' hc').within⟩)
      have hspec := andMergeAll_spec nodes n h hu t i hi cs hnd hall hrange
        ((sampled get cs).map Prod.fst) hds
        (by
          intro d hd
          rw [List.mem_map] at hd
          obtain ⟨⟨d', s'⟩, hds', rfl⟩ := hd
          exact ((mem_sampled get cs d' s').mp hds').1)
        ((sampled get cs).map Prod.snd) (by rw [List.length_map, List.length_map])
        (by
          intro j hj
          rw [List.getElem_map, List.getElem_map]
          exact hlift _ _ (List.getElem_mem _))
        q
      rw [sampled_snd] at hspec
      have hdne : (sampled get cs).map Prod.fst ≠ [] := by
        intro hnil
        have := (isEmpty_iff _).mp (hspec.1 hnil)
        exact hne this
      refine sampleFor_congr nodes n t i _ _ ?_ _ (hspec.2 hdne)
      intro v
      rw [vars_and nodes h.topo i hi cs hnd, mem_varsOf, mem_varsOf]
      constructor
      · rintro ⟨d, hd, hvd⟩
        rw [List.mem_map] at hd
        obtain ⟨⟨d', s'⟩, hds', rfl⟩ := hd
        exact ⟨d', ((mem_sampled get cs d' s').mp hds').1, hvd⟩
      · rintro ⟨c, hc, hvc⟩
        cases hg : get c with
        | empty => rw [(hch c hc).empty_vars hg] at hvc; cases hvc
        | void => have := hnv c hc; rw [hg] at this; cases this
        | sample s =>
          exact ⟨c, List.mem_map.mpr ⟨(c, s), (mem_sampled get cs c s).mpr ⟨hc, hg⟩, rfl⟩, hvc⟩

theorem partialSample_or (h : WF nodes n)
    (t : Nat) (i : Nat) (hi : i < nodes.length) (cs : List Nat) (hnd : nodes[i] = .or cs)
    (get : Nat → Res) (hget : ∀ j, j < i → ResAt nodes n t j (get j)) (q : Queue) :
    ResAt nodes n t i (partialSample (ctxOf nodes n) t get i (.or cs) q).1 := by
  have hlt : ∀ c ∈ cs, c < i := fun c hc => h.topo i hi c (by rw [hnd]; exact hc)
  have hch : ∀ c ∈ cs, ResAt nodes n t c (get c) := fun c hc => hget c (hlt c hc)
  by_cases hv : (cs.map get).all isVoid = true
  · have hr : (partialSample (ctxOf nodes n) t get i (.or cs) q).1 = .void := by
      simp only [partialSample, hv, if_true]
    rw [hr]
    refine ⟨?_, (fun s hs => by cases hs), (fun hs => by cases hs), (fun s hs => by cases hs)⟩
    have : count nodes i = 0 := by
      apply Classical.byContradiction
      intro hc
      obtain ⟨c, hc', hcc⟩ := (count_or_ne nodes h.topo i hi cs hnd).mp hc
      rw [List.all_eq_true] at hv
      exact hcc ((hch c hc').void_iff.mp (hv _ (List.mem_map.mpr ⟨c, hc', rfl⟩)))
    simp [isVoid, this]
  · have hr : (partialSample (ctxOf nodes n) t get i (.or cs) q).1
        = Res.ofSample (((cs.map get).filterMap resSample).foldl (orMerge t) {}) := by
      simp only [partialSample, hv]
      rfl
    rw [hr]
    have hex : ∃ c ∈ cs, isVoid (get c) = false := by
      apply Classical.byContradiction
      intro hno
      apply hv
      rw [List.all_eq_true]
      intro r hr
      rw [List.mem_map] at hr
      obtain ⟨c, hc, rfl⟩ := hr
      cases hb : isVoid (get c) with
      | true => rfl
      | false => exact (hno ⟨c, hc, hb⟩).elim
    have hcnt : ∀ c ∈ cs, isVoid (get c) = false ↔ count nodes c ≠ 0 := by
      intro c hc
      rw [Ne, ← (hch c hc).void_iff]
      cases isVoid (get c) <;> simp
    have hci : count nodes i ≠ 0 := by
      obtain ⟨c, hc, hb⟩ := hex
      exact (count_or_ne nodes h.topo i hi cs hnd).mpr ⟨c, hc, (hcnt c hc).mp hb⟩
    have hss : ∀ s ∈ (cs.map get).filterMap resSample, s.all ≠ [] := by
      intro s hs
      obtain ⟨c, hc, hcs⟩ := (mem_samples get cs s).mp hs
      exact (hch c hc).sample_nonempty s hcs
    -- a child that is `.empty` makes the variable list of the node empty
    have hempty : ∀ c ∈ cs, get c = .empty → vars nodes i = [] := by
      intro c hc hg
      have hcc : count nodes c ≠ 0 := (hcnt c hc).mp (by rw [hg]; rfl)
      apply List.eq_nil_iff_forall_not_mem.mpr
      intro v hvi
      have := (vars_or_child nodes n h i hi cs hnd c hc hcc v).mpr hvi
      rw [(hch c hc).empty_vars hg] at this
      cases this
    refine ⟨?_, ?_, ?_, ?_⟩
    · rw [isVoid_ofSample]
      simp [hci]
    · intro s hs
      obtain ⟨rfl, h2⟩ := ofSample_eq_sample _ _ hs
      exact h2
    · intro hs
      have hnil := ofSample_eq_empty _ hs
      have hnone : ¬ ∃ s ∈ (cs.map get).filterMap resSample, s.all ≠ [] := fun hex' =>
        orFold_nonempty t _ hex' hnil
      have hssnil := filterMap_nil_of_all_empty _ hnone hss
      obtain ⟨c, hc, hb⟩ := hex
      apply hempty c hc
      cases hg : get c with
      | empty => rfl
      | void => rw [hg] at hb; cases hb
      | sample s =>
        have : s ∈ (cs.map get).filterMap resSample := (mem_samples get cs s).mpr ⟨c, hc, hg⟩
        rw [hssnil] at this
        cases this
    · intro s hs hlive
      obtain ⟨rfl, hne⟩ := ofSample_eq_sample _ _ hs
      have hrange : ∀ v ∈ vars nodes i, 1 ≤ v ∧ v ≤ n := fun v hv =>
        (mem_vars_root nodes n h v).mp (hlive.1 v hv)
      have hchild : ∀ d s, (d, s) ∈ sampled get cs →
          d ∈ cs ∧ count nodes d ≠ 0 ∧ SampleAt nodes n t d s := by
        intro d s hds
        obtain ⟨hd, hg⟩ := (mem_sampled get cs d s).mp hds
        have hcc : count nodes d ≠ 0 := (hcnt d hd).mp (by rw [hg]; rfl)
        exact ⟨hd, hcc, (hch d hd).sample s hg (live_or_child nodes n h i hi cs hnd hlive d hd hcc)⟩
      have hspec := orFold_spec nodes n t i (vars nodes i) hrange
        ((sampled get cs).map Prod.fst) ((sampled get cs).map Prod.snd)
        (by rw [List.length_map, List.length_map])
        (by
          intro s hs
          rw [List.mem_map] at hs
          obtain ⟨⟨d, s'⟩, hds, rfl⟩ := hs
          obtain ⟨hd, hcc, hsd⟩ := hchild d s' hds
          refine ⟨?_, hsd.nonempty⟩
          exact sampleInv_transfer nodes n i d (vars nodes i) (vars nodes d) s'
            (vars_or_child nodes n h i hi cs hnd d hd hcc)
            (fun L hL => (satAt_or nodes h.topo i hi cs hnd L).mpr ⟨d, hd, hL⟩) hsd.inv)
        (by
          intro j hj
          rw [List.getElem_map, List.getElem_map]
          obtain ⟨hd, hcc, hsd⟩ := hchild _ _ (List.getElem_mem (l := sampled get cs)
            (by rw [List.length_map] at hj; exact hj))
          exact covers_transfer t _ _ _ _
            (fun v hv => (vars_or_child nodes n h i hi cs hnd _ hd hcc v).mpr hv) hsd.cover)
      rw [sampled_snd] at hspec
      have hdne : (sampled get cs).map Prod.fst ≠ [] := by
        intro hnil
        have := (isEmpty_iff _).mp (hspec.1 hnil)
        exact hne this
      obtain ⟨h1, h2, h3⟩ := hspec.2 hdne
      refine ⟨h1, ?_, h2⟩
      intro I hI1 hI2 hI3 hI4 hI5
      apply h3 I hI1 hI2 hI3 hI4
      obtain ⟨c, hc, hsc⟩ := (satAt_or nodes h.topo i hi cs hnd I).mp hI5
      have hcc : count nodes c ≠ 0 := satAt_count nodes c I hsc
      refine ⟨c, ?_, hsc⟩
      cases hg : get c with
      | empty =>
        exfalso
        obtain ⟨l, hl⟩ := List.exists_mem_of_ne_nil _ hI1
        have := (hI4 l hl).2
        rw [hempty c hc hg] at this
        cases this
      | void =>
        have := (hcnt c hc).mpr hcc
        rw [hg] at this
        cases this
      | sample s =>
        exact List.mem_map.mpr ⟨(c, s), (mem_sampled get cs c s).mpr ⟨hc, hg⟩, rfl⟩

/-- one node, given that the results of all earlier nodes are `ResAt` -/
theorem partialSample_spec (h : WF nodes n) (hu : LitUnique nodes) (hpos : 0 < count nodes (rootIx nodes))
    (t : Nat) (ht : 1 ≤ t) (i : Nat) (hi : i < nodes.length) (get : Nat → Res)
    (hget : ∀ j, j < i → ResAt nodes n t j (get j)) (q : Queue) :
    ResAt nodes n t i (partialSample (ctxOf nodes n) t get i nodes[i] q).1 := by
  have _ := ht
  cases hnd : nodes[i] with
  | and cs => exact partialSample_and nodes n h hu t i hi cs hnd get hget q
  | or cs => exact partialSample_or nodes n h t i hi cs hnd get hget q
  | lit l => exact partialSample_lit nodes n h hu hpos t i hi l hnd
  | tru =>
    show ResAt nodes n t i .empty
    have hcnt : count nodes i = 1 := by rw [count_eq nodes i hi, hnd]; rfl
    refine ⟨?_, (fun s hs => by cases hs), fun _ => ?_, (fun s hs => by cases hs)⟩
    · rw [hcnt]; simp [isVoid]
    · rw [vars_eq nodes i hi, hnd]; rfl
  | fls =>
    show ResAt nodes n t i .void
    have hcnt : count nodes i = 0 := by rw [count_eq nodes i hi, hnd]; rfl
    refine ⟨?_, (fun s hs => by cases hs), (fun hs => by cases hs), (fun s hs => by cases hs)⟩
    rw [hcnt]; simp [isVoid]

/-- the loop, started anywhere -/
theorem sampleNodes_gen (h : WF nodes n) (hu : LitUnique nodes) (hpos : 0 < count nodes (rootIx nodes))
    (t : Nat) (ht : 1 ≤ t) :
    ∀ (rest : List NType) (k : Nat) (acc : Array Res) (q : Queue),
      rest = nodes.drop k → k ≤ nodes.length → acc.size = k →
      (∀ j, j < k → ResAt nodes n t j (acc.getD j .void)) →
      (sampleNodes (ctxOf nodes n) t rest acc q).1.size = nodes.length ∧
      ∀ i, i < nodes.length →
        ResAt nodes n t i ((sampleNodes (ctxOf nodes n) t rest acc q).1.getD i .void) := by
  intro rest
  induction rest with
  | nil =>
    intro k acc q hrest hk hsize hacc
    have hlen : nodes.length ≤ k := List.drop_eq_nil_iff.mp hrest.symm
    have hkk : k = nodes.length := by omega
    subst hkk
    exact ⟨hsize, hacc⟩
  | cons nd rest ih =>
    intro k acc q hrest hk hsize hacc
    have hklt : k < nodes.length := by
      apply Classical.byContradiction
      intro hge
      have : nodes.drop k = [] := List.drop_eq_nil_iff.mpr (by omega)
      rw [this] at hrest
      cases hrest
    rw [List.drop_eq_getElem_cons hklt] at hrest
    injection hrest with hnd hrest'
    have hstep : sampleNodes (ctxOf nodes n) t (nd :: rest) acc q
        = sampleNodes (ctxOf nodes n) t rest
            (acc.push (partialSample (ctxOf nodes n) t (fun j => acc.getD j .void) acc.size nd q).1)
            (partialSample (ctxOf nodes n) t (fun j => acc.getD j .void) acc.size nd q).2 := by
      simp only [sampleNodes]
    rw [hstep]
    have hone := partialSample_spec nodes n h hu hpos t ht k hklt (fun j => acc.getD j .void) hacc q
    rw [← hnd, ← hsize] at hone
    apply ih (k + 1) _ _ hrest' (by omega) (by rw [Array.size_push, hsize])
    intro j hj
    by_cases hjk : j < k
    · have : (acc.push (partialSample (ctxOf nodes n) t (fun j => acc.getD j .void) acc.size nd q).1).getD j .void
          = acc.getD j .void := by
        exact getD_push_lt _ _ _ _ (by omega)
      rw [this]
      exact hacc j hjk
    · have hjk' : j = k := by omega
      have : (acc.push (partialSample (ctxOf nodes n) t (fun j => acc.getD j .void) acc.size nd q).1).getD j .void
          = (partialSample (ctxOf nodes n) t (fun j => acc.getD j .void) acc.size nd q).1 := by
        rw [hjk', ← hsize]; exact getD_push_eq _ _ _
      rw [this, hjk']
      rw [hsize] at hone ⊢
      exact hone

/-- the whole pass -/
theorem sampleNodes_spec (h : WF nodes n) (hu : LitUnique nodes) (hpos : 0 < count nodes (rootIx nodes))
    (t : Nat) (ht : 1 ≤ t) (q : Queue) :
    (sampleNodes (ctxOf nodes n) t nodes #[] q).1.size = nodes.length ∧
    ∀ i, i < nodes.length →
      ResAt nodes n t i ((sampleNodes (ctxOf nodes n) t nodes #[] q).1.getD i .void) :=
  sampleNodes_gen nodes n h hu hpos t ht nodes 0 #[] q rfl (Nat.zero_le _) rfl
    (fun j hj => by omega)

end Ddnnf.TW
