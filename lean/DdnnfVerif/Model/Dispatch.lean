/- answers of the model for the line protocol (formatting + dispatch only) -/
import DdnnfVerif.Model.Basic
import DdnnfVerif.Model.Query
import DdnnfVerif.Model.WFCheck
import DdnnfVerif.Model.Features
import DdnnfVerif.Model.Enum
import DdnnfVerif.Model.Optimal
import DdnnfVerif.Model.Cnf
import DdnnfVerif.Model.Concurrency
import DdnnfVerif.Proofs.PDLeaf
import DdnnfVerif.Proofs.CnfExport
namespace Ddnnf

def fmtInts (xs : List Int) : String := " ".intercalate (xs.map toString)

def insertSorted {α} (lt : α → α → Bool) (x : α) : List α → List α
  | [] => [x]
  | y :: ys => if lt x y then x :: y :: ys else y :: insertSorted lt x ys
def sortBy {α} (lt : α → α → Bool) (xs : List α) : List α := xs.foldr (insertSorted lt) []

def sortInts (xs : List Int) : List Int := sortBy (fun a b => a < b) xs
def sortCfg (c : Config) : Config := sortBy (fun a b => a.natAbs < b.natAbs) c
def fmtCfgs (cs : List Config) : String := ";".intercalate (cs.map (fun c => fmtInts (sortCfg c)))

def parseIntsD (ws : List String) : List Int := ws.filterMap String.toInt?

/-- split the argument words at "|" -/
def splitBar (ws : List String) : List String × List String :=
  (ws.takeWhile (· ≠ "|"), (ws.dropWhile (· ≠ "|")).drop 1)

def valsOf (vs : List Int) : Nat → Int := fun v => if v ≥ 1 then vs.getD (v - 1) 0 else 0
def fmtOC (full : Bool) (o : OC) : String :=
  if full then s!"{o.value}:{fmtInts (sortCfg o.cfg)}" else toString o.value

def parseStreamEv (w : String) : Option Stream.Ev :=
  match w.splitOn ":" with
  | ["park"] => some .park
  | ["unpark"] => some .unpark
  | [k, v] =>
      match v.toNat? with
      | none => none
      | some id =>
        match k with
        | "push" => some (.push id) | "pull" => some (.pull id) | "send" => some (.send id)
        | "recv" => some (.recv id) | "print" => some (.print id) | "exit" => some (.stop id)
        | "eof" => some (.stop id) | "done" => some (.done id) | "unpark" => some .unpark
        | "park" => some .park
        | _ => none
  | _ => none

/-- replay of a trace of the real stream loop through the state machine -/
def traceAnswer (ws : List String) : String :=
  let evs := ws.filterMap parseStreamEv
  if evs.length != ws.length then "unparsed-event"
  else match Stream.run {} evs with
    | some s => s!"ok accepted={s.nextId} printed={s.outputId} inorder={decide (s.printed = List.range s.outputId)} finished={s.finished}"
    | none => s!"rejected at {(Stream.firstRejected {} evs 0).getD 0}"

def parseLockEv (w : String) : List EnumLock.Ev :=
  match w.splitOn ":" with
  | ["r", t] => let t := t.toNat?.getD 0; [.acquire t, .read t]
  | ["w", t] => let t := t.toNat?.getD 0; [.write t, .release t]
  | _ => []

/-- `q enumlock L k0,k1,.. r:0 w:0 r:1 …` : replay of observed cursor-section events under the lock discipline -/
def enumLockAnswer (ws : List String) : String :=
  match ws with
  | l :: ks :: evs =>
      let ms := List.range (l.toNat?.getD 0)
      let amounts := (ks.splitOn ",").map (fun k => k.toNat?.getD 0)
      let amount := fun t => amounts.getD t 0
      match EnumLock.runWith (EnumLock.stepLocked ms amount) {} (evs.flatMap parseLockEv) with
      | some s => ";".intercalate (s.pages.map fun (t, p) => s!"{t}:" ++ ",".intercalate (p.map toString))
      | none => "rejected-by-lock-discipline"
  | _ => "bad-args"

def circuitLine (nodes : List NType) (n : Nat) : String :=
  -- hypotheses of the theorems: WF (wfB_sound) and LitUnique (litUniqueB_sound); the truth-table part of
  -- determinism is only evaluated for n ≤ 12
  let wf := if n ≤ 12 then toString (wfB nodes n && litUniqueB nodes)
            else (if structB nodes n && litUniqueB nodes then "struct" else "false")
  s!"circuit nodes={nodes.length} wf={wf} count={count nodes (rootIx nodes)}"

def answer (nodes : List NType) (n : Nat) (kind : String) (args : List String) : String :=
  let A := parseIntsD args
  match kind with
  | "count" => toString (execQuery nodes n A)
  | "countdef" => toString (countA nodes (A.map (fun f => -f)) (rootIx nodes))
  | "spec" => toString (specCount nodes n A)
  | "sat" => toString (satQuery nodes n A)
  | "core" => fmtInts (sortInts (coreDeadA nodes n A))
  | "tt" => String.ofList ((allBits n).map fun b => if eval (assignOf b) nodes (rootIx nodes) then '1' else '0')
  | "counts" => " ".intercalate ((counts nodes).toList.map toString)
  | "satmarks" =>
      let ms := satMarks nodes (A.map (fun f => -f))
      String.ofList (ms.toList.map fun m => if m.1 || m.2 == 0 then '1' else '0')
  | "cardpd" => " ".intercalate ((cardPD nodes n).map toString)
  | "best" | "bestv" =>
      let (vs, As) := splitBar args
      match bestConfig nodes (valsOf (parseIntsD vs)) (parseIntsD As) with
      | some o => fmtOC (kind == "best") o
      | none => "none"
  | "topk" | "topkv" =>
      match args with
      | k :: rest =>
          let (vs, As) := splitBar rest
          ";".intercalate ((topK nodes (valsOf (parseIntsD vs)) (parseIntsD As) (k.toNat?.getD 0)).map (fmtOC (kind == "topk")))
      | [] => "bad-args"
  | "tocnf" =>
      let (nv, cls) := toCnf nodes n
      s!"{nv} {cls.length} | " ++ " ; ".intercalate (cls.map fmtInts)
  | "trace" => traceAnswer args
  | "enumlock" => enumLockAnswer args
  | "fmtline" =>
      match args with
      | ans :: q => (QueryFile.fmtLine (parseIntsD q) ans).replace "\n" "\\n"
      | [] => "bad-args"
  | "cnfok" => toString (litRangeB nodes n && ((tseitin nodes n).next != n + 1) && rootIsLastVarB nodes n)
  | "enumok" => toString (enumOkB nodes)
  | "models" => fmtCfgs (models nodes (rootIx nodes))
  | _ => "unknown-query"

end Ddnnf
