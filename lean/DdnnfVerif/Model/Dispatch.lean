/- answers of the model for the line protocol (formatting + dispatch only) -/
import DdnnfVerif.Model.Basic
import DdnnfVerif.Model.Query
import DdnnfVerif.Model.WFCheck
import DdnnfVerif.Model.Features
import DdnnfVerif.Model.Enum
import DdnnfVerif.Model.Optimal
import DdnnfVerif.Model.Cnf
import DdnnfVerif.Proofs.PDLeaf
namespace Ddnnf

def fmtInts (xs : List Int) : String := " ".intercalate (xs.map toString)

def insertSorted {α} (lt : α → α → Bool) (x : α) : List α → List α
  | [] => [x]
  | y :: ys => if lt x y then x :: y :: ys else y :: insertSorted lt x ys
def sortBy {α} (lt : α → α → Bool) (xs : List α) : List α := xs.foldr (insertSorted lt) []

def sortInts (xs : List Int) : List Int := sortBy (fun a b => a < b) xs
def sortCfg (c : Config) : Config := sortBy (fun a b => a.natAbs < b.natAbs) c
def fmtCfgs (cs : List Config) : String := ";".intercalate (cs.map (fun c => fmtInts (sortCfg c)))

def parseIntsD (ws : List String) : List Int := ws.filterMap String.toInt?

/-- split the argument words at "|" -/
def splitBar (ws : List String) : List String × List String :=
  (ws.takeWhile (· ≠ "|"), (ws.dropWhile (· ≠ "|")).drop 1)

def valsOf (vs : List Int) : Nat → Int := fun v => if v ≥ 1 then vs.getD (v - 1) 0 else 0
def fmtOC (full : Bool) (o : OC) : String :=
  if full then s!"{o.value}:{fmtInts (sortCfg o.cfg)}" else toString o.value

def circuitLine (nodes : List NType) (n : Nat) : String :=
  -- hypotheses of the theorems: WF (wfB_sound) and LitUnique (litUniqueB_sound); the truth-table part of
  -- determinism is only evaluated for n ≤ 12
  let wf := if n ≤ 12 then toString (wfB nodes n && litUniqueB nodes)
            else (if structB nodes n && litUniqueB nodes then "struct" else "false")
  s!"circuit nodes={nodes.length} wf={wf} count={count nodes (rootIx nodes)}"

def answer (nodes : List NType) (n : Nat) (kind : String) (args : List String) : String :=
  let A := parseIntsD args
  match kind with
  | "count" => toString (execQuery nodes n A)
  | "countdef" => toString (countA nodes (A.map (fun f => -f)) (rootIx nodes))
  | "spec" => toString (specCount nodes n A)
  | "sat" => toString (satQuery nodes n A)
  | "core" => fmtInts (sortInts (coreDeadA nodes n A))
  | "tt" => String.ofList ((allBits n).map fun b => if eval (assignOf b) nodes (rootIx nodes) then '1' else '0')
  | "counts" => " ".intercalate ((counts nodes).toList.map toString)
  | "satmarks" =>
      let ms := satMarks nodes (A.map (fun f => -f))
      String.ofList (ms.toList.map fun m => if m.1 || m.2 == 0 then '1' else '0')
  | "cardpd" => " ".intercalate ((cardPD nodes n).map toString)
  | "best" | "bestv" =>
      let (vs, As) := splitBar args
      match bestConfig nodes (valsOf (parseIntsD vs)) (parseIntsD As) with
      | some o => fmtOC (kind == "best") o
      | none => "none"
  | "topk" | "topkv" =>
      match args with
      | k :: rest =>
          let (vs, As) := splitBar rest
          ";".intercalate ((topK nodes (valsOf (parseIntsD vs)) (parseIntsD As) (k.toNat?.getD 0)).map (fmtOC (kind == "topk")))
      | [] => "bad-args"
  | "tocnf" =>
      let (nv, cls) := toCnf nodes n
      s!"{nv} {cls.length} | " ++ " ; ".intercalate (cls.map fmtInts)
  | "enumok" => toString (enumOkB nodes)
  | "models" => fmtCfgs (models nodes (rootIx nodes))
  | _ => "unknown-query"

end Ddnnf
