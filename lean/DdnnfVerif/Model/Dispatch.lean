/- answers of the model for the line protocol (formatting + dispatch only) -/
import DdnnfVerif.Model.Basic
import DdnnfVerif.Model.Query
import DdnnfVerif.Model.WFCheck
import DdnnfVerif.Model.Features
import DdnnfVerif.Model.Enum
import DdnnfVerif.Model.Optimal
import DdnnfVerif.Model.Cnf
import DdnnfVerif.Model.Concurrency
import DdnnfVerif.Model.Sample
import DdnnfVerif.Model.Persist
import DdnnfVerif.Model.Atomic
import DdnnfVerif.Model.UnionFind
import DdnnfVerif.Model.D4Load
import DdnnfVerif.Model.D4Conv
import DdnnfVerif.Model.Lex
import DdnnfVerif.Model.StreamMsg
import DdnnfVerif.Model.Edit
import DdnnfVerif.Model.TWise
import DdnnfVerif.Model.TWiseGen
import DdnnfVerif.Model.TIter
import DdnnfVerif.Model.SatState
import DdnnfVerif.Proofs.PDLeaf
import DdnnfVerif.Proofs.CnfExport
namespace Ddnnf

def fmtInts (xs : List Int) : String := " ".intercalate (xs.map toString)

def insertSorted {α} (lt : α → α → Bool) (x : α) : List α → List α
  | [] => [x]
  | y :: ys => if lt x y then x :: y :: ys else y :: insertSorted lt x ys
def sortBy {α} (lt : α → α → Bool) (xs : List α) : List α := xs.foldr (insertSorted lt) []

def sortInts (xs : List Int) : List Int := sortBy (fun a b => a < b) xs
def sortCfg (c : Config) : Config := sortBy (fun a b => a.natAbs < b.natAbs) c
def fmtCfgs (cs : List Config) : String := ";".intercalate (cs.map (fun c => fmtInts (sortCfg c)))

def parseIntsD (ws : List String) : List Int := ws.filterMap String.toInt?

/-- split the argument words at "|" -/
def splitBar (ws : List String) : List String × List String :=
  (ws.takeWhile (· ≠ "|"), (ws.dropWhile (· ≠ "|")).drop 1)

def valsOf (vs : List Int) : Nat → Int := fun v => if v ≥ 1 then vs.getD (v - 1) 0 else 0
def fmtOC (full : Bool) (o : OC) : String :=
  if full then s!"{o.value}:{fmtInts (sortCfg o.cfg)}" else toString o.value

def parseStreamEv (w : String) : Option Stream.Ev :=
  match w.splitOn ":" with
  | ["park"] => some .park
  | ["unpark"] => some .unpark
  | [k, v] =>
      match v.toNat? with
      | none => none
      | some id =>
        match k with
        | "push" => some (.push id) | "pull" => some (.pull id) | "send" => some (.send id)
        | "recv" => some (.recv id) | "print" => some (.print id) | "exit" => some (.stop id)
        | "eof" => some (.stop id) | "done" => some (.done id) | "unpark" => some .unpark
        | "park" => some .park
        | _ => none
  | _ => none

/-- replay of a trace of the real stream loop through the state machine -/
def traceAnswer (ws : List String) : String :=
  let evs := ws.filterMap parseStreamEv
  if evs.length != ws.length then "unparsed-event"
  else match Stream.run {} evs with
    | some s => s!"ok accepted={s.nextId} printed={s.outputId} inorder={decide (s.printed = List.range s.outputId)} finished={s.finished}"
    | none => s!"rejected at {(Stream.firstRejected {} evs 0).getD 0}"

def parseLockEv (w : String) : List EnumLock.Ev :=
  match w.splitOn ":" with
  | ["r", t] => let t := t.toNat?.getD 0; [.acquire t, .read t]
  | ["w", t] => let t := t.toNat?.getD 0; [.write t, .release t]
  | _ => []

/-- `q enumlock L k0,k1,.. r:0 w:0 r:1 …` : replay of observed cursor-section events under the lock discipline -/
def enumLockAnswer (ws : List String) : String :=
  match ws with
  | l :: ks :: evs =>
      let ms := List.range (l.toNat?.getD 0)
      let amounts := (ks.splitOn ",").map (fun k => k.toNat?.getD 0)
      let amount := fun t => amounts.getD t 0
      match EnumLock.runWith (EnumLock.stepLocked ms amount) {} (evs.flatMap parseLockEv) with
      | some s => ";".intercalate (s.pages.map fun (t, p) => s!"{t}:" ++ ",".intercalate (p.map toString))
      | none => "rejected-by-lock-discipline"
  | _ => "bad-args"

def parseCfgList (len : Nat) (s : String) : List Config :=
  if len == 0 then []
  else (s.splitOn ";").map fun c => ((c.splitOn ",").filter (· ≠ "")).filterMap String.toInt?

def parseSEv (w : String) : Option SEv :=
  match w.splitOn ":" with
  | ["AS", node, child, len, cfgs] =>
      some (.andShuffle (node.toNat?.getD 0) (child.toNat?.getD 0) (parseCfgList (len.toNat?.getD 0) cfgs))
  | ["OP", node, picks] => some (.orPicks (node.toNat?.getD 0) ((picks.splitOn ",").filterMap String.toNat?))
  | ["OS", node, len, cfgs] => some (.orShuffle (node.toNat?.getD 0) (parseCfgList (len.toNat?.getD 0) cfgs))
  | _ => none

/-- `q sample <amount> <A…> | <events…>` -/
def sampleAnswer (nodes : List NType) (n : Nat) (args : List String) : String :=
  match args with
  | amount :: rest =>
      let (As, evs) := splitBar rest
      let evs' := evs.filterMap parseSEv
      if evs'.length != evs.length then "unparsed-event"
      else match sampleAlong nodes n (parseIntsD As) (amount.toNat?.getD 0) evs' with
        | none => "rejected-trace"
        | some none => "none"
        | some (some cs) => fmtCfgs cs
  | [] => "bad-args"

def fmtNode : NType → String
  | .and cs => " ".intercalate ("A" :: cs.map toString)
  | .or cs => " ".intercalate ("O" :: cs.map toString)
  | .lit l => s!"L {l}"
  | .tru => "T"
  | .fls => "F"

def splitOnTok (sep : String) (ws : List String) : List (List String) :=
  let rec go : List String → List String → List (List String) → List (List String)
    | [], cur, acc => (cur.reverse :: acc).reverse
    | w :: rest, cur, acc => if w == sep then go rest [] (cur.reverse :: acc) else go rest (w :: cur) acc
  go ws [] []

def parseD4Line (ws : List String) : Option D4.Line :=
  match ws with
  | ["o", _, "0"] => some (.node .or)
  | ["a", _, "0"] => some (.node .and)
  | ["t", _, "0"] => some (.node .tru)
  | ["f", _, "0"] => some (.node .fls)
  | a :: b :: rest =>
      match a.toNat?, b.toNat?, rest.getLast? with
      | some x, some y, some "0" => some (.edge x y (rest.dropLast.filterMap String.toInt?))
      | _, _, _ => none
  | _ => none

/-- `q d4load <total_features> | line / line / …` : the model loader on the text of a d4 file -/
def d4loadAnswer (args : List String) : String :=
  match args with
  | tf :: "|" :: rest =>
      let lines := (splitOnTok "/" rest).filter (!·.isEmpty)
      let parsed := lines.filterMap parseD4Line
      if parsed.length != lines.length then "unparsable"
      else
        let (n, nodes, err) := D4.load parsed (tf.toNat?.getD 0)
        if err then "panic" else s!"{n} " ++ "|".intercalate (nodes.map fmtNode)
  | _ => "bad-args"

/-- raw text lines travel through the word protocol encoded: blank as `_`, tab as `~`, an empty line as `%` -/
def decodeRaw (w : String) : List Char :=
  if w == "%" then [] else w.toList.map fun c => if c == '_' then ' ' else if c == '~' then '\t' else c

/-- `q d4text <total_features> | enc enc …` : lexers (character level) + loader on the raw lines of a d4 file -/
def d4textAnswer (args : List String) : String :=
  match args with
  | tf :: "|" :: rest =>
      match Lex.parseD4Text (rest.map decodeRaw) with
      | none => "panic"
      | some parsed =>
          let (n, nodes, err) := D4.load parsed (tf.toNat?.getD 0)
          if err then "panic" else s!"{n} " ++ "|".intercalate (nodes.map fmtNode)
  | _ => "bad-args"

/-- `q c2dtext | enc enc …` : header test on the trimmed first line, lexer on every other line, flattening;
`not-c2d` if the first line is no header (the code then takes the d4 loader) -/
def c2dtextAnswer (args : List String) : String :=
  match args with
  | "|" :: rest =>
      let lines := rest.map decodeRaw
      match lines with
      | [] => "panic"
      | first :: _ =>
          match Lex.lexC2d (Lex.trimAscii first) with
          | .ok (.header _ _ _) =>
              match Lex.parseC2dText lines with
              | some (v, file) =>
                  -- `node_indices[child]`: a child index that is not an earlier line panics
                  if (file.zipIdx.all fun (nd, i) => (children nd).all fun c => c < i) && !file.isEmpty then
                    s!"{v} " ++ "|".intercalate ((flatten file).map fmtNode)
                  else "panic"
              | none => "panic"
          | .panic => "panic"
          | _ => "not-c2d"
  | _ => "bad-args"

/-- `q d4conv <total_features> | line / line / …` : do the hypotheses of the loader theorem hold for the
text, and if so, does its conclusion (checked by `wfB` on the loaded array)? -/
def d4convAnswer (args : List String) : String :=
  match args with
  | tf :: "|" :: rest =>
      let lines := (splitOnTok "/" rest).filter (!·.isEmpty)
      let parsed := lines.filterMap parseD4Line
      if parsed.length != lines.length then "unparsable"
      else
        let total := tf.toNat?.getD 0
        let (n, nodes, _) := D4.load parsed total
        if n > 10 then "ok conv=0"
        else if D4.conventions2B parsed total then
          -- `conventions2B_sound`: well formed, unique literal leaves, every node but the root has a parent
          (if wfB nodes n && litUniqueB nodes && (n == 0 || enumOkB nodes) &&
              ((List.range (nodes.length - 1)).all fun j =>
                (List.range nodes.length).any fun i => j < i && (children (nodes.getD i .tru)).contains j)
           then "ok conv=1" else "CONTRADICTION: conventions hold, loaded array not WF / LitUnique / EnumOK / HasParents")
        else "ok conv=0"
  | _ => "bad-args"

/-- `q c2dload | line / line / …` : the model loader on the text of a c2d file -/
def c2dloadAnswer (args : List String) : String :=
  match args with
  | "|" :: rest =>
      let lines := (splitOnTok "/" rest).filter (!·.isEmpty)
      let toks := lines.map fun l => l.map fun w => match w.toInt? with | some i => Tk.num i | none => Tk.kw w
      match parseFile toks with
      | some (v, file) => s!"{v} " ++ "|".intercalate ((flatten file).map fmtNode)
      | none => "unparsable"
  | _ => "bad-args"

def circuitLine (nodes : List NType) (n : Nat) : String :=
  -- hypotheses of the theorems: WF (wfB_sound) and LitUnique (litUniqueB_sound); the truth-table part of
  -- determinism is only evaluated for n ≤ 12
  let wf := if n ≤ 12 then toString (wfB nodes n && litUniqueB nodes)
            else (if structB nodes n && litUniqueB nodes then "struct" else "false")
  s!"circuit nodes={nodes.length} wf={wf} count={count nodes (rootIx nodes)}"

def answer (nodes : List NType) (n : Nat) (kind : String) (args : List String) : String :=
  let A := parseIntsD args
  match kind with
  | "count" => toString (execQuery nodes n A)
  | "countdef" => toString (countA nodes (A.map (fun f => -f)) (rootIx nodes))
  | "spec" => toString (specCount nodes n A)
  | "sat" => toString (satQuery nodes n A)
  | "core" => fmtInts (sortInts (coreDeadA nodes n A))
  | "tt" => String.ofList ((allBits n).map fun b => if eval (assignOf b) nodes (rootIx nodes) then '1' else '0')
  | "counts" => " ".intercalate ((counts nodes).toList.map toString)
  | "satstate" =>
      -- the imperative propagation on a fresh vector: answer and the exact mark bits afterwards
      let (m, b) := SatS.satPropagate nodes n (Array.replicate nodes.length false) A
      toString b ++ " " ++ String.ofList ((List.range nodes.length).map fun i => if SatS.markOf m i then '1' else '0')
  | "satmarks" =>
      let ms := satMarks nodes (A.map (fun f => -f))
      String.ofList (ms.toList.map fun m => if m.1 || m.2 == 0 then '1' else '0')
  | "cardpd" => " ".intercalate ((cardPD nodes n).map toString)
  | "best" | "bestv" =>
      let (vs, As) := splitBar args
      match bestConfig nodes (valsOf (parseIntsD vs)) (parseIntsD As) with
      | some o => fmtOC (kind == "best") o
      | none => "none"
  | "topk" | "topkv" =>
      match args with
      | k :: rest =>
          let (vs, As) := splitBar rest
          ";".intercalate ((topK nodes (valsOf (parseIntsD vs)) (parseIntsD As) (k.toNat?.getD 0)).map (fmtOC (kind == "topk")))
      | [] => "bad-args"
  | "tocnf" =>
      let (nv, cls) := toCnf nodes n
      s!"{nv} {cls.length} | " ++ " ; ".intercalate (cls.map fmtInts)
  | "trace" => traceAnswer args
  | "enumlock" => enumLockAnswer args
  | "fmtline" =>
      match args with
      | ans :: q => (QueryFile.fmtLine (parseIntsD q) ans).replace "\n" "\\n"
      | [] => "bad-args"
  | "cnfok" => toString (litRangeB nodes n && ((tseitin nodes n).next != n + 1) && rootIsLastVarB nodes n)
  | "sample" => sampleAnswer nodes n args
  | "save" => " / ".intercalate ((writeFile nodes n).map renderLine)
  | "reload" =>
      match saveReload nodes n with
      | some (v, ns) => s!"{v} " ++ "|".intercalate (ns.map fmtNode)
      | none => "unparsable"
  | "atomic" =>
      match args with
      | cross :: rest =>
          let (cs, As) := splitBar rest
          -- the transcription with the real union-find (path compression, union by rank); the abstract class
          -- model the C08 theorems are about must give the same report (`UF.atomicSetsUF_eq_of_wf`)
          let viaUF := UF.atomicSetsUF nodes n (cs.filterMap String.toNat?) (parseIntsD As) (cross == "1") []
          let viaClasses := atomicSets nodes n (cs.filterMap String.toNat?) (parseIntsD As) (cross == "1") []
          if viaUF == viaClasses then ";".intercalate (viaUF.map fmtInts)
          else "union-find transcription and class model differ: " ++ ";".intercalate (viaUF.map fmtInts) ++ " vs " ++ ";".intercalate (viaClasses.map fmtInts)
      | [] => "bad-args"
  | "d4load" => d4loadAnswer args
  | "d4conv" => d4convAnswer args
  | "d4text" => d4textAnswer args
  | "c2dtext" => c2dtextAnswer args
  | "hasparents" =>
      -- every node except the root is a child of a later node (hypothesis `MS.HasParents` of the scratch-state theorems)
      toString ((List.range (nodes.length - 1)).all fun j =>
        (List.range nodes.length).any fun i => j < i && (children (nodes.getD i .tru)).contains j)
  | "twise" =>
      -- `q twise t | cfg ; cfg ; ..` : the verified checker on a sample returned by the real code
      (match args with
       | t :: "|" :: rest =>
           let cfgs := ((splitOnTok ";" rest).filter (!·.isEmpty)).map fun c => c.filterMap String.toInt?
           TWise.verdict nodes n (t.toNat?.getD 0) cfgs
       | _ => "bad-args")
  | "titer" =>
      -- `q titer n t`: what the state machine of t_iterator.rs yields; it must also be the list the t-wise model uses
      (match args with
       | [a, b] =>
           let (n', t') := (a.toNat?.getD 0, b.toNat?.getD 0)
           let viaMachine := TI.indices n' t'
           let viaList := (TW.combos t' (List.range n')).map List.reverse
           if viaMachine == viaList then ";".intercalate (viaMachine.map fun ix => " ".intercalate (ix.map toString))
           else "state machine and list model differ"
       | _ => "bad-args")
  | "twgenA" =>
      -- the fitness-guided construction replayed with the recorded comparison results:
      -- `q twgenA t | L 1 0 | I a b ; c d | M 2 | B 1 -2 3 | D 1 0 | H 3 -1`
      (match args with
       | t :: rest =>
           let entries := ((splitOnTok "|" rest).filter (!·.isEmpty)).filterMap fun e =>
             match e with
             | "I" :: ws => some (TW.OEntry.inter (if ws.isEmpty then [] else (splitOnTok ";" ws).map parseIntsD))
             | "L" :: ws => some (TW.OEntry.lr (ws.map (· == "1")))
             | "M" :: ws => some (TW.OEntry.moved ((ws.headD "0").toNat?.getD 0))
             | "B" :: ws => some (TW.OEntry.best (parseIntsD ws))
             | "D" :: ws => some (TW.OEntry.drop (ws.map (· == "1")))
             | "H" :: ws => some (TW.OEntry.shuf (parseIntsD ws))
             | _ => none
           let (r, q) := TW.sampleTWiseAQ (TW.ctxOf nodes n) (t.toNat?.getD 0) { entries := entries }
           let body := match r with
             | .void => "false"
             | .empty => "true"
             | .sample _ => ";".intercalate (r.configs.map fmtInts)
           s!"rejected={q.rejected} left={q.entries.length} | {body}"
       | _ => "bad-args")
  | "twgen" =>
      -- `q twgen t | I a b ; c d | S 1 0 | D 1 0 | H 3 -1`: the construction itself, replayed with the
      -- order-dependent choices recorded in the real run; the answer is the sample in the order of `Sample::iter`
      (match args with
       | t :: rest =>
           let entries := ((splitOnTok "|" rest).filter (!·.isEmpty)).filterMap fun e =>
             match e with
             | "I" :: ws => some (TW.OEntry.inter (if ws.isEmpty then [] else (splitOnTok ";" ws).map parseIntsD))
             | "S" :: ws => some (TW.OEntry.sorted (ws.filterMap String.toNat?))
             | "D" :: ws => some (TW.OEntry.drop (ws.map (· == "1")))
             | "H" :: ws => some (TW.OEntry.shuf (parseIntsD ws))
             | _ => none
           let (r, q) := TW.sampleTWiseQ (TW.ctxOf nodes n) (t.toNat?.getD 0) { entries := entries }
           let body := match r with
             | .void => "false"
             | .empty => "true"
             | .sample _ => ";".intercalate (r.configs.map fmtInts)
           s!"rejected={q.rejected} left={q.entries.length} | {body}"
       | _ => "bad-args")
  | "addunit" =>
      -- `q addunit f`: the edited feature count and node array
      let f := (args.headD "0").toInt?.getD 0
      let (n', out) := addUnit nodes n f
      s!"{n'} " ++ "|".intercalate (out.map fmtNode)
  | "c2dload" => c2dloadAnswer args
  | "enumok" => toString (enumOkB nodes)
  | "models" => fmtCfgs (models nodes (rootIx nodes))
  | _ => "unknown-query"

end Ddnnf
