/-
  The union-find structure of ddnnife/src/ddnnf/anomalies/atomic_sets.rs (`UnionFind<i16>`:
  `find` with path compression, `equiv`, `union` by rank, `subsets`), transcribed literally, and
  `get_atomic_sets` / `incremental_subset_check` threading that structure (`atomicSetsUF`,
  `subsetCheckUF`).  `Model/Atomic.lean` abstracts the structure to a list of classes;
  `Proofs/UnionFind*.lean` prove that the two models compute the same report.

  The two `HashMap`s are association lists (`ains` = `HashMap::insert`, `List.lookup` =
  `HashMap::get`); the iteration order of `rank` in `subsets` (arbitrary in Rust) is the insertion
  order.  The recursion of `find` gets a fuel argument; the public `find` supplies
  `parents.len() + 1`, which is always enough (`Proofs/UnionFind.lean`: `findF_fuel_irrel`).
-/
import DdnnfVerif.Model.Atomic
namespace Ddnnf.UF

/-- `HashMap::insert`: replace the value of an existing key, or add the entry -/
def ains {β} (k : Int) (v : β) : List (Int × β) → List (Int × β)
  | [] => [(k, v)]
  | (k', v') :: t => if k' == k then (k, v) :: t else (k', v') :: ains k v t

/-- `HashMap::contains_key` -/
def hasKey {β} (k : Int) (m : List (Int × β)) : Bool := (m.lookup k).isSome

structure State where
  size : Nat
  parents : List (Int × Int)
  rank : List (Int × Nat)
deriving Repr, DecidableEq

/-- `UnionFind::new()` -/
def empty : State := ⟨0, [], []⟩

/-- `*self.parents.get(&node).unwrap()` (the node itself stands for a missing entry) -/
def parent (s : State) (x : Int) : Int := (s.parents.lookup x).getD x

/-- `find(node)` with path compression; `fuel` bounds the depth of the recursion -/
def findF : Nat → State → Int → State × Int
  | 0, s, x => (s, x)
  | fuel + 1, s, x =>
    -- if !self.parents.contains_key(&node) { self.parents.insert(node, node); self.size += 1 }
    let s := if hasKey x s.parents then s
      else { s with parents := ains x x s.parents, size := s.size + 1 }
    -- if !node.eq(self.parents.get(&node).unwrap()) { found = self.find(parent); insert(node, found) }
    if parent s x != x then
      let (s', found) := findF fuel s (parent s x)
      let s'' := { s' with parents := ains x found s'.parents }
      (s'', parent s'' x)
    else (s, parent s x)

/-- `find(node)` -/
def find (s : State) (x : Int) : State × Int := findF (s.parents.length + 1) s x

/-- `equiv(x, y)`: `self.find(x) == self.find(y)` -/
def equiv (s : State) (x y : Int) : State × Bool :=
  let (s, xr) := find s x
  let (s, yr) := find s y
  (s, xr == yr)

/-- `union(x, y)` -/
def union (s : State) (x y : Int) : State :=
  let (s, xr) := find s x
  let (s, yr) := find s y
  let s := if hasKey xr s.rank then s else { s with rank := ains xr 0 s.rank }
  let s := if hasKey yr s.rank then s else { s with rank := ains yr 0 s.rank }
  if xr == yr then s
  else
    let xrr := (s.rank.lookup xr).getD 0
    let yrr := (s.rank.lookup yr).getD 0
    if xrr > yrr then { s with parents := ains yr xr s.parents }
    else
      let s := { s with parents := ains xr yr s.parents }
      if xrr == yrr then { s with rank := ains yr (yrr + 1) s.rank } else s

/-- `result.entry(root)`: push `node` to the set of `root`, or start a new set -/
def addTo (root node : Int) : List (Int × List Int) → List (Int × List Int)
  | [] => [(root, [node])]
  | (r, g) :: t => if r == root then (r, g ++ [node]) :: t else (r, g) :: addTo root node t

/-- the loop of `subsets()` over the keys of (a copy of) `rank` -/
def subsetsLoop (keys : List Int) (s : State) (res : List (Int × List Int)) :
    State × List (Int × List Int) :=
  keys.foldl (fun (acc : State × List (Int × List Int)) node =>
    let (s', root) := find acc.1 node
    (s', addTo root node acc.2)) (s, res)

/-- `subsets()`: group the keys of `rank` by their root, sort each set -/
def subsets (s : State) : State × List (List Int) :=
  let (s, res) := subsetsLoop (s.rank.map (·.1)) s []
  (s, res.map (fun g => sortBy' (fun a b => decide (a < b)) g.2))

/-- `incremental_subset_check` for one group of candidates with the same count `control` -/
def subsetCheckUF (nodes : List NType) (n : Nat) (A : List Int) (samples : List Config)
    (control : Nat) (group : List Int) (s : State) : State :=
  (pairs group).foldl (fun s (x, y) =>
    let (s, e) := equiv s x y
    if e then s
    else if differInSample samples x y then s
    else if execQuery nodes n ([x, y] ++ A) == control then union s x y
    else s) s

/-- `get_atomic_sets(candidates, assumptions, cross)` with the real union-find structure -/
def atomicSetsUF (nodes : List NType) (n : Nat) (cands : List Nat) (A : List Int) (cross : Bool)
    (samples : List Config) : List (List Int) :=
  if cands.isEmpty then []
  else
    let combos : List (Nat × Int) := cands.flatMap fun (f : Nat) =>
      let sf : Int := (f : Int)
      (execQuery nodes n ([sf] ++ A), sf) ::
        (if cross then [(execQuery nodes n ([-sf] ++ A), -sf)] else [])
    let sorted := sortBy' (fun (a b : Nat × Int) => a.1 < b.1 || (a.1 == b.1 && a.2 < b.2)) combos
    let uf := (groupByCount sorted).foldl (fun s (k, g) => subsetCheckUF nodes n A samples k g s) empty
    let sets := (subsets uf).2
    if cross then
      -- sort_and_clean_atomicsets
      let sets := sets.map (sortBy' (fun a b => a.natAbs < b.natAbs))
      let sets := sortBy' (fun (a b : List Int) =>
        (a.headD 0).natAbs < (b.headD 0).natAbs || ((a.headD 0).natAbs == (b.headD 0).natAbs && a.headD 0 < b.headD 0)) sets
      dedupFirstAbs sets
    else
      -- subsets.sort_unstable()
      sortBy' lexLt sets

/-! ### sanity checks (the unit test `union_find_operations` of the Rust file) -/

/-- `union(1,2); union(3,4); union(2,3)` -/
def ex1 : State := union (union (union empty 1 2) 3 4) 2 3
/-- … `union(5,100); union(100,5); union(7,1)` -/
def ex2 : State := union (union (union ex1 5 100) 100 5) 7 1

example : (subsets empty).2 = [] := by decide
example : (equiv ex1 1 3).2 = true ∧ (equiv ex1 1 4).2 = true ∧ (equiv ex1 4 1).2 = true := by decide
example : (subsets ex1).2 = [[1, 2, 3, 4]] := by decide
example : (equiv ex2 5 100).2 = true ∧ (equiv ex2 2 4).2 = true ∧ (equiv ex2 2 5).2 = false ∧
    (equiv ex2 4 100).2 = false := by decide
example : (subsets ex2).2 = [[1, 2, 3, 4, 7], [5, 100]] := by decide
/-- `union(x, x)` on a fresh node creates a rank entry, so `subsets` reports the singleton -/
example : (subsets (union empty 5 5)).2 = [[5]] := by decide
/-- path compression and `size`: after the three unions `1 → 2`, `3 → 4`, `2 → 4`; `find(1)`
re-points `1` to the root `4` -/
example : ex1.parents = [(1, 2), (2, 4), (3, 4), (4, 4)] ∧ ex1.size = 4 ∧
    ex1.rank = [(1, 0), (2, 1), (3, 0), (4, 2)] := by decide
example : (find ex1 1).1.parents = [(1, 4), (2, 4), (3, 4), (4, 4)] ∧ (find ex1 1).2 = 4 := by decide

end Ddnnf.UF
