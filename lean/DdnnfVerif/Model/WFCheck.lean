/-
  Executable well-formedness check, run by the driver on every circuit exported by the harness.
  `wfB_sound` (Proofs/WFCheck.lean) shows `wfB nodes n = true → WF nodes n` for the structural part;
  determinism is decided by truth table (`detB`, exhaustive over all 2^n assignments).
-/
import DdnnfVerif.Model.Basic
namespace Ddnnf

def varsTable (nodes : List NType) : Array (List Nat) :=
  let cs := counts nodes
  table [] (fVars (fun c => cs.getD c 0)) nodes

def decomposableB (nodes : List NType) : Bool :=
  let vt := varsTable nodes
  nodes.all fun nd => match nd with
    | .and cs => nodupB ((cs.map (fun c => vt.getD c [])).flatten)
    | _ => true

def smoothB (nodes : List NType) : Bool :=
  let vt := varsTable nodes
  let ct := counts nodes
  (List.range nodes.length).all fun i => match nodes.getD i .tru with
    | .or cs => cs.all fun c => ct.getD c 0 == 0 || permB (vt.getD c []) (vt.getD i [])
    | _ => true

def rootCompleteB (nodes : List NType) (n : Nat) : Bool :=
  permB ((varsTable nodes).getD (rootIx nodes) []) ((List.range n).map (· + 1))

/-- truth-table determinism: for every assignment no or-node has two true children -/
def detB (nodes : List NType) (n : Nat) : Bool :=
  (allBits n).all fun b =>
    let ev := table false (fEval (assignOf b)) nodes
    nodes.all fun nd => match nd with
      | .or cs => cs.countP (fun c => ev.getD c false) ≤ 1
      | _ => true

/-- every literal leaf is a literal of a feature in 1..n -/
def litRangeB (nodes : List NType) (n : Nat) : Bool :=
  nodes.all fun nd => match nd with | .lit l => l != 0 && l.natAbs ≤ n | _ => true

def structB (nodes : List NType) (n : Nat) : Bool :=
  !nodes.isEmpty && topoB nodes && litnzB nodes && litRangeB nodes n && decomposableB nodes
    && smoothB nodes && rootCompleteB nodes n

def wfB (nodes : List NType) (n : Nat) : Bool := structB nodes n && detB nodes n

end Ddnnf

namespace Ddnnf

/-- no or-node has a `True` child and the root is not `True` (side conditions of the enumeration theorems) -/
def noTruUnderOrB (nodes : List NType) : Bool :=
  nodes.all fun nd => match nd with
    | .or cs => cs.all fun c => nodes.getD c .fls != .tru
    | _ => true

def enumOkB (nodes : List NType) : Bool :=
  topoB nodes && noTruUnderOrB nodes && (nodes.getLast? != some .tru) && !nodes.isEmpty

end Ddnnf
