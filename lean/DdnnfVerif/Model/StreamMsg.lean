/-
  The stream protocol: model of `Ddnnf::handle_stream_msg` (ddnnife/src/ddnnf/stream.rs) for a model
  loaded from an nnf file (no clause cache): tokenisation, duplicate check, the early `t` /
  `total-features` handling, `get_numbers` (ranges, `0` dropped, boundary check), `get_floats`,
  the parameter loop and the dispatch to the operation models.

  A reply is either a result (`ok`) or an error with one of the documented codes E1..E6.  For results
  produced by operations the model cannot compute without the random source (`random`, `t-wise`) or
  that are side effects (`save-*`) the content is `none`; error texts that come from library error
  types (nom, `ParseIntError`, `ParseFloatError`, io) are `none` as well — everything else is literal.
  Characters are ASCII (Rust's `char::is_alphabetic` is Unicode; the harness generates ASCII).
-/
import DdnnfVerif.Model.Enum
import DdnnfVerif.Model.Atomic
import DdnnfVerif.Model.ClauseCache
namespace Ddnnf.Msg

inductive Reply where
  | ok (text : Option String)
  | err (code : Nat) (text : Option String)
deriving Repr, DecidableEq, Inhabited

def E (code : Nat) (s : String) : Reply := .err code (some s)

/-- Rust `{:?}` of a plain ASCII word -/
def dbg (w : String) : String := "\"" ++ w ++ "\""


def hasAlpha (w : String) : Bool := w.toList.any Char.isAlpha

/-- does `str::parse::<f64>` succeed (full grammar: sign, inf / infinity / nan, decimal with exponent)? -/
def isF64Tok (w : String) : Bool :=
  let cs := w.toList.map Char.toLower
  let cs := match cs with | '-' :: r => r | '+' :: r => r | _ => cs
  if cs == "inf".toList || cs == "infinity".toList || cs == "nan".toList then true
  else
    let intPart := cs.takeWhile Char.isDigit
    let rest := cs.drop intPart.length
    let (frac, rest) := match rest with
      | '.' :: r => (r.takeWhile Char.isDigit, r.dropWhile Char.isDigit)
      | r => ([], r)
    let mantissaOk := !intPart.isEmpty || !frac.isEmpty
    match rest with
    | [] => mantissaOk
    | 'e' :: r =>
        let r := match r with | '-' :: r' => r' | '+' :: r' => r' | _ => r
        mantissaOk && !r.isEmpty && r.all Char.isDigit
    | _ => false

/-- a word of the duplicate check: neither a number (`str::parse::<f64>` succeeds) nor made of digits,
'-' and '.' only (ranges) — repaired code -/
def isTextWord (w : String) : Bool := !(isF64Tok w || w.toList.all fun c => c.isDigit || c == '-' || c == '.')

/-- `contains_input_duplicate_commands_or_params`: the first text word that was seen before -/
def canonicalWord (w : String) : String :=
  if w == "assumptions" then "a" else if w == "variables" then "v" else if w == "fitness" then "f"
  else if w == "seed" then "s" else if w == "limit" then "l" else if w == "path" then "p"
  else if w == "total-features" then "t" else w

def dupWord : List String → List String → Option String
  | [], _ => none
  | w :: rest, seen =>
      if isTextWord w then
        if seen.contains (canonicalWord w) then some w else dupWord rest (canonicalWord w :: seen)
      else dupWord rest seen

/-! ### numbers -/

def digitsToNat (ds : List Char) : Nat := ds.foldl (fun acc c => acc * 10 + (c.toNat - '0'.toNat)) 0

/-- `signed_number`: optional '-' followed by at least one digit; returns the value and the rest -/
def takeSigned (cs : List Char) : Option (Int × List Char) :=
  let (neg, cs') := match cs with
    | '-' :: r => (true, r)
    | _ => (false, cs)
  let ds := cs'.takeWhile Char.isDigit
  if ds.isEmpty then none
  else
    let v : Int := digitsToNat ds
    some (if neg then -v else v, cs'.drop ds.length)

def inI32 (v : Int) : Bool := -2147483648 ≤ v && v ≤ 2147483647

def rangeIncl (a b : Int) : List Int :=
  if b < a then [] else (List.range (b - a + 1).toNat).map fun (k : Nat) => a + (k : Int)

/-- one token of `get_numbers` (nom `alt` of: `a..b`, `a..`, `a`; a syntactic match whose `parse::<i32>`
fails makes `alt` fall through to the next alternative): the inclusive range the token stands for.
`none` = parse error (E3). -/
def parseNumTok (boundary : Nat) (w : String) : Option (Int × Int) :=
  match takeSigned w.toList with
  | none => none
  | some (a, rest) =>
      let limited : Option (Int × Int) :=
        match rest with
        | '.' :: '.' :: rest' =>
            match takeSigned rest' with
            | some (b, _) => if inI32 a && inI32 b then some (a, b) else none
            | none => none
        | _ => none
      match limited with
      | some r => some r
      | none =>
          let unlimited : Option (Int × Int) :=
            match rest with
            | '.' :: '.' :: _ => if inI32 a then some (a, (boundary : Int)) else none
            | _ => none
          match unlimited with
          | some r => some r
          | none => if inI32 a then some (a, a) else none

inductive NumRes where
  | ok (numbers : List Int) (consumed : Nat)
  | fail (r : Reply)

def boundaryErr (boundary : Nat) : Reply :=
  E 3 s!"E3 error: not all parameters are within the boundary of {-(boundary : Int)} to {boundary}"

/-- `get_numbers(params, boundary)`.  A non-empty range with an endpoint outside the boundary is
rejected before it is expanded (repaired code). -/
def getNumbers (boundary : Nat) (params : List String) : NumRes :=
  let rec go : List String → List Int → Nat → NumRes
    | [], nums, k => finish nums k
    | w :: rest, nums, k =>
        if hasAlpha w then boundaryCheck nums k    -- early return (even with no numbers), boundary still checked
        else match parseNumTok boundary w with
          | none => .fail (.err 3 none)
          | some (a, b) =>
              if a ≤ b && (a.natAbs > boundary || b.natAbs > boundary) then .fail (boundaryErr boundary)
              else go rest (nums ++ (rangeIncl a b).filter (· != 0)) (k + 1)
  go params [] 0
where
  boundaryCheck (nums : List Int) (k : Nat) : NumRes :=
    if nums.any (fun v => v.natAbs > boundary) then .fail (boundaryErr boundary)
    else .ok nums k
  finish (nums : List Int) (k : Nat) : NumRes :=
    if nums.isEmpty then .fail (E 4 "E4 error: option used but there was no value supplied")
    else boundaryCheck nums k

/-- does Rust's `str::parse::<f64>` accept the token?  (tokens with letters never reach the parse) -/
def isFloatTok (w : String) : Bool :=
  let cs := w.toList
  let cs := match cs with | '-' :: r => r | '+' :: r => r | _ => cs
  let intPart := cs.takeWhile Char.isDigit
  let rest := cs.drop intPart.length
  match rest with
  | [] => !intPart.isEmpty
  | '.' :: frac => frac.all Char.isDigit && (!intPart.isEmpty || !frac.isEmpty)
  | _ => false

/-- `get_floats`: `(count of values, consumed)` or an error -/
def getFloats (params : List String) : Option (Nat × Nat) ⊕ Reply :=
  let rec go : List String → Nat → Option (Nat × Nat) ⊕ Reply
    | [], k => if k == 0 then .inr (E 4 "E4 error: option used but there was no value supplied") else .inl (some (k, k))
    | w :: rest, k =>
        if hasAlpha w then .inl (some (k, k))
        else if isFloatTok w then go rest (k + 1)
        else .inr (.err 3 none)
  go params 0

/-! ### the parameter loop -/

structure Params where
  params : List Int := []       -- assumptions
  values : List Int := []       -- variables
  seed : Nat := 42
  limit : Option Nat := none
  fitness : Nat := 0            -- number of fitness values
  path : String := ""
  adds : List (List Int) := []   -- clauses after `add` (each a set: ascending, no duplicates)
  rmvs : List (List Int) := []   -- clauses after `rmv`

def isNatTok (w : String) (maxv : Nat) : Bool :=
  let cs := match w.toList with | '+' :: r => r | cs => cs
  !cs.isEmpty && cs.all Char.isDigit && digitsToNat cs ≤ maxv

def parseNatTok (w : String) : Nat :=
  digitsToNat (match w.toList with | '+' :: r => r | cs => cs)

/-- a clause as a `BTreeSet<i32>`: ascending, duplicates removed -/
def clauseOf (nums : List Int) : List Int :=
  let rec dedup : List Int → List Int
    | a :: b :: r => if a == b then dedup (b :: r) else a :: dedup (b :: r)
    | l => l
  dedup (nums.foldr (fun x acc =>
    let rec ins : Int → List Int → List Int
      | x, [] => [x]
      | x, y :: ys => if x ≤ y then x :: y :: ys else y :: ins x ys
    ins x acc) [])

/-- `split_clauses` + `get_numbers` per clause (only reachable for `add` / `rmv`): number of tokens
consumed and the clauses -/
def parseClauses (total : Nat) (args : List String) : Option (Nat × List (List Int)) ⊕ Reply :=
  -- tokens up to the first one that does not parse as f64
  let numeric := args.takeWhile isF64Tok
  let rec split : List String → List String → List (List String) → Option (List (List String))
    | [], cur, acc => some (if cur.isEmpty then acc else acc ++ [cur])
    | w :: rest, cur, acc =>
        if w == "0" then (if cur.isEmpty then none else split rest [] (acc ++ [cur]))
        else split rest (cur ++ [w]) acc
  match split numeric [] [] with
  | none => .inr (E 4 "E4 error: detected an unallowed empty clause")
  | some [] => .inr (E 4 "E4 error: key word is missing arguments")
  | some clauses =>
      -- after every clause an immediately following "0" is skipped
      let rec each : List (List String) → Nat → List (List Int) → Option (Nat × List (List Int)) ⊕ Reply
        | [], k, acc => .inl (some (k, acc))
        | c :: cs, k, acc =>
            match getNumbers total c with
            | .fail r => .inr r
            | .ok nums len =>
                let k' := k + len
                each cs (if args.getD k' "" == "0" then k' + 1 else k') (acc ++ [clauseOf nums])
      each clauses 0 []

def paramLoop (total : Nat) : Nat → List String → Params → Params ⊕ Reply
  | 0, _, p => .inl p
  | _, [], p => .inl p
  | fuel + 1, w :: rest, p =>
      if w == "a" || w == "assumptions" then
        match getNumbers total rest with
        | .ok nums len => paramLoop total fuel (rest.drop len) { p with params := nums }
        | .fail r => .inr r
      else if w == "v" || w == "variables" then
        match getNumbers total rest with
        | .ok nums len => paramLoop total fuel (rest.drop len) { p with values := nums }
        | .fail r => .inr r
      else if w == "f" || w == "fitness" then
        match getFloats rest with
        | .inl (some (cnt, len)) => paramLoop total fuel (rest.drop len) { p with fitness := cnt }
        | .inl none => .inl p
        | .inr r => .inr r
      else if w == "seed" || w == "s" || w == "limit" || w == "l" || w == "path" || w == "p" then
        match rest with
        | [] => .inr (E 4 s!"E4 error: param \"{w}\" was used, but no value supplied")
        | v :: rest' =>
            if w == "seed" || w == "s" then
              if isNatTok v 18446744073709551615 then paramLoop total fuel rest' { p with seed := parseNatTok v }
              else .inr (.err 3 none)
            else if w == "limit" || w == "l" then
              if isNatTok v 18446744073709551615 then paramLoop total fuel rest' { p with limit := some (parseNatTok v) }
              else .inr (.err 3 none)
            else paramLoop total fuel rest' { p with path := v }
      else if w == "add" || w == "rmv" then
        match parseClauses total rest with
        | .inr r => .inr r
        | .inl none => .inl p
        | .inl (some (len, cls)) =>
            paramLoop total fuel (rest.drop len)
              (if w == "add" then { p with adds := p.adds ++ cls } else { p with rmvs := p.rmvs ++ cls })
      else .inr (E 4 s!"E4 error: the option \"{w}\" is not valid in this context")

/-! ### dispatch -/

def joinSemi (xs : List String) : String := ";".intercalate xs
def fmtIntsS (xs : List Int) : String := " ".intercalate (xs.map toString)

def insertInt (x : Int) : List Int → List Int
  | [] => [x]
  | y :: ys => if x ≤ y then x :: y :: ys else y :: insertInt x ys
def sortInt (xs : List Int) : List Int := xs.foldr insertInt []
def dedupAdj : List Int → List Int
  | a :: b :: r => if a == b then dedupAdj (b :: r) else a :: dedupAdj (b :: r)
  | l => l
def sortCfgAbs (c : Config) : Config := c.foldr (fun x acc => insertAbs x acc) []

/-- `op_with_assumptions_and_vars` for an operation rendered as a string -/
def opWithVars (op : List Int → Bool → Option String) (params values : List Int) : String :=
  let direct := if values.isEmpty then op params false else none
  match direct with
  | some v => v
  | none => joinSemi (values.filterMap fun v => op (params ++ [v]) true)

/-- `msg.split_whitespace()` -/
def tokens (msg : String) : List String :=
  (msg.split Char.isWhitespace).toList.map (·.toString) |>.filter (· ≠ "")

/-- the state of the handler: the enumeration cursor and, for a model loaded from a CNF, the clause cache -/
structure HState where
  cur : Cursor := []
  cache : Option CC.Cache := none

/-- `Ddnnf::handle_stream_msg`.  `cache = none`: the model was loaded from an nnf file.
After an accepted `clause-update` / `undo-update` the node array is the one the compiler produces for
the new clause set: it is not computed here (the compiler is outside the model); the caller supplies
the node array of the live model with every message. -/
def handleC (nodes : List NType) (n : Nat) (st : HState) (msg : String) : HState × Reply :=
  let cur := st.cur
  let args := tokens msg
  match args with
  | [] => (st, E 4 "E4 error: got an empty msg")
  | cmd :: _ =>
    match dupWord args [] with
    | some w => (st, E 4 s!"E4 error: \"{w}\" occurs at least twice in the stream msg")
    | none =>
      -- total-features is only valid together with clause-update and needs the clause cache
      let early : (Nat × List String) ⊕ Reply :=
        match args.findIdx? (fun s => s == "total-features" || s == "t") with
        | none => .inl (n, args)
        | some idx =>
            let w := args.getD idx ""
            if cmd != "clause-update" then
              .inr (E 4 s!"E4 error: {dbg w} can only be used in combination with \"clause-update\"")
            else
              -- exactly one value token may follow, and it must be a plain number
              let vals := (args.drop (idx + 1)).takeWhile (fun w => !hasAlpha w)
              let single := vals.length == 1 && (vals.headD "").splitOn ".." == [vals.headD ""]
              match (if single then getNumbers 2147483647 vals else .fail (.err 4 none)) with
              | .ok [x] _ =>
                  if x > 0 then
                    match st.cache with
                    | none => .inr (E 5 "E5 error: clauses corresponding to the d-DNNF aren't available; the input file must be a CNF")
                    | some c =>
                        if CC.conflicts c x.toNat then
                          .inr (E 5 "E5 error: at least one clause is in conflict with the feature reduction; remove conflicting clauses")
                        else .inl (x.toNat, args.take idx ++ args.drop (idx + 2))
                  else .inr (E 4 s!"E4 error: {dbg w} must be set to a single positive number")
              | _ => .inr (E 4 s!"E4 error: {dbg w} must be set to a single positive number")
      match early with
      | .inr r => (st, r)
      | .inl (total, args) =>
        let tail := args.drop 1
        match paramLoop total (tail.length + 1) tail {} with
        | .inr r => (st, r)
        | .inl p =>
          if cmd == "count" then
            (st, .ok (some (opWithVars (fun A _ => some (toString (execQuery nodes n A))) p.params p.values)))
          else if cmd == "sat" then
            (st, .ok (some (opWithVars (fun A _ => some (toString (satQuery nodes n A))) p.params p.values)))
          else if cmd == "core" then
            (st, .ok (some (opWithVars (fun A vars =>
              if vars then
                let c := A.getLast?.getD 0
                if execQuery nodes n A == execQuery nodes n A.dropLast then some (toString c) else none
              else some (fmtIntsS (sortInt (coreDeadA nodes n A)))) p.params p.values)))
          else if cmd == "enum" then
            let rc := count nodes (rootIx nodes)
            let lim := match p.limit with | some l => l | none => if rc > 1000 then 1000 else rc
            let (cur', res) := enumerate nodes n cur p.params lim
            match res with
            | some cs => ({ st with cur := cur' }, .ok (some (joinSemi (cs.map fun c => fmtIntsS (sortCfgAbs c)))))
            | none => ({ st with cur := cur' }, E 5 "E5 error: with the assumptions, the ddnnf is not satisfiable. Hence, there exist no valid sample configurations")
          else if cmd == "random" then
            if execQuery nodes n p.params > 0 then (st, .ok none)
            else (st, E 5 "E5 error: with the assumptions, the ddnnf is not satisfiable. Hence, there exist no valid sample configurations")
          else if cmd == "atomic" || cmd == "atomic-cross" then
            if p.values.any (· < 0) then (st, E 5 "E5 error: candidates must be positive")
            else
              let cands := if p.values.isEmpty then (List.range n).map (· + 1) else p.values.map Int.toNat
              -- unsatisfiable assumptions: `get_signed_excludes` gets no samples and uses all-zero sign
              -- vectors, i.e. one sample in which no feature is selected; otherwise the (admissible)
              -- samples do not change the report (C08 `report_independent_of_samples`)
              let samples : List Config := if execQuery nodes n p.params == 0 then [[]] else []
              (st, .ok (some (joinSemi ((atomicSets nodes n cands p.params (cmd == "atomic-cross") samples).map fmtIntsS))))
          else if cmd == "t-wise" then
            if p.fitness == 0 || p.fitness == n then (st, .ok none)
            else (st, E 5 s!"E5 error: Only {p.fitness} fitness values were provided but d-DNNF contains {n} variables.")
          else if cmd == "clause-update" then
            match st.cache with
            | none => (st, E 5 "E5 error: clauses corresponding to the d-DNNF aren't available; the input file must be a CNF")
            | some c =>
                -- `update_cached_state(Left(add, rmv), Some(total))`: the `t` checks were done above
                let (c', v) := CC.update c (some total) p.adds p.rmvs
                if v == .ok then ({ st with cache := some c', cur := [] }, .ok (some ""))
                else (st, E 5 "E5 error: could not update cached state")
          else if cmd == "undo-update" then
            match st.cache with
            | none => (st, E 5 "E5 error: could not perform undo; there does not exist any cached state1")
            | some c =>
                -- the cursor belongs to the model that gets swapped out (only if an old model exists)
                let (c', _) := CC.undo c
                ({ st with cache := some c', cur := if c.old.isSome then [] else cur }, .ok (some ""))
          else if cmd == "exit" then (st, .ok (some "exit"))
          else if cmd == "save-cnf" || cmd == "save-ddnnf" then
            if p.path == "" then (st, E 6 "E6 error: no file path was supplied")
            else if !p.path.startsWith "/" then (st, E 6 "E6 error: file path is not absolute, but has to be")
            else if cmd == "save-ddnnf" then (st, .ok none)       -- result or E6 io error: decided by the file system
            else match st.cache with
              | none => (st, E 5 "E5 error: cannot save as CNF because clauses are not available")
              | some _ => (st, .ok none)
          else (st, E 2 s!"E2 error: the operation \"{cmd}\" is not supported")

/-- the handler of a model loaded from an nnf file (no clause cache) -/
def handle (nodes : List NType) (n : Nat) (cur : Cursor) (msg : String) : Cursor × Reply :=
  let r := handleC nodes n { cur := cur, cache := none } msg
  (r.1.cur, r.2)

end Ddnnf.Msg
