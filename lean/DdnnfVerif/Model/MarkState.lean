/-
  The marking strategy of ddnnife with its mutable scratch state made explicit
  (ddnnife/src/ddnnf/counting/marking.rs: `mark_assumptions`, `mark_nodes_start`, `mark_nodes`,
  `calc_count_marked_node`, `operate_on_marker`; node.rs: `marker`, `temp`, `parents`; ddnnf.rs: `md`).

  `Model/Query.lean` describes the same computation as a pure bottom-up pass (`fMarker`); here the
  fields every request leaves behind are part of the state, so that "a request does not depend on
  what earlier requests left in `temp` / `marker` / `md`" (C16) becomes a statement about this machine.
-/
import DdnnfVerif.Model.Query
namespace Ddnnf.MS

structure NodeSt where
  count : Nat
  temp : Nat
  marker : Bool
deriving Repr, DecidableEq, Inhabited

structure St where
  ns : Array NodeSt
  md : List Nat
deriving Repr, DecidableEq

/-- the state right after loading: counts computed, nothing marked (`temp` is arbitrary: `tmp`) -/
def initSt (nodes : List NType) (tmp : Nat → Nat) : St :=
  { ns := ((List.range nodes.length).map fun i => ⟨count nodes i, tmp i, false⟩).toArray, md := [] }

/-- `Node.parents`: the nodes that list `i` as a child, in increasing order (filled by `rebuild`) -/
def parentsOf (nodes : List NType) (i : Nat) : List Nat :=
  (List.range nodes.length).filter fun p => (children (nodes.getD p .tru)).contains i

def setMarker (s : St) (i : Nat) (b : Bool) : St :=
  { s with ns := s.ns.modify i fun x => { x with marker := b } }
def setTemp (s : St) (i : Nat) (t : Nat) : St :=
  { s with ns := s.ns.modify i fun x => { x with temp := t } }
def markerOf (s : St) (i : Nat) : Bool := (s.ns.getD i default).marker
def tempOf (s : St) (i : Nat) : Nat := (s.ns.getD i default).temp
def countOf (s : St) (i : Nat) : Nat := (s.ns.getD i default).count

/-- `mark_nodes` (the recursion goes to larger indices; `fuel` bounds it) -/
def markNodes (nodes : List NType) : Nat → St → Nat → St
  | 0, s, _ => s
  | fuel + 1, s, i =>
      let s := setMarker s i true
      let s := { s with md := s.md ++ [i] }
      (parentsOf nodes i).foldl (fun s p => if markerOf s p then s else markNodes nodes fuel s p) s

/-- `mark_nodes_start`: like `mark_nodes`, but the start node is not recorded in `md` -/
def markNodesStart (nodes : List NType) (s : St) (i : Nat) : St :=
  let s := setMarker s i true
  (parentsOf nodes i).foldl (fun s p => if markerOf s p then s else markNodes nodes nodes.length s p) s

def insertNat (x : Nat) : List Nat → List Nat
  | [] => [x]
  | y :: ys => if x ≤ y then x :: y :: ys else y :: insertNat x ys
def sortNat (xs : List Nat) : List Nat := xs.foldr insertNat []

/-- `mark_assumptions` -/
def markAssumptions (nodes : List NType) (s : St) (indexes : List Nat) : St :=
  let s := indexes.foldl (fun s i => markNodesStart nodes (setTemp s i 0) i) s
  { s with md := sortNat s.md }

/-- `calc_count_marked_node` -/
def calcMarked (nodes : List NType) (s : St) (i : Nat) : St :=
  let sel := fun c => if markerOf s c then tempOf s c else countOf s c
  match nodes.getD i .tru with
  | .and cs =>
      let mcs := cs.filter (markerOf s)
      let t := if mcs.length ≤ cs.length / 2
        then mcs.foldl (fun acc c => (if countOf s c != 0 then acc / countOf s c else acc) * tempOf s c) (countOf s i)
        else prodNat (cs.map sel)
      setTemp s i t
  | .or cs => setTemp s i (sumNat (cs.map sel))
  | .fls => setTemp s i 0
  | _ => setTemp s i 1

/-- `operate_on_marker(indexes, calc_count_marked_node)`: new state and the returned root `temp` -/
def operateOnMarker (nodes : List NType) (s : St) (indexes : List Nat) : St × Nat :=
  let s := markAssumptions nodes s indexes
  let s := s.md.foldl (calcMarked nodes) s
  let result := tempOf s (rootIx nodes)
  let s := s.md.foldl (fun s i => setMarker s i false) s
  let s := indexes.foldl (fun s i => setMarker s i false) s
  ({ s with md := [] }, result)

/-- index of the leaf of literal `l` (`Ddnnf.literals`) -/
def leafIx (nodes : List NType) (l : Int) : Option Nat :=
  (List.range nodes.length).find? fun i => nodes.getD i .tru == .lit l

/-- `map_features_opposing_indexes` -/
def opposing (nodes : List NType) (fs : List Int) : List Nat := fs.filterMap fun f => leafIx nodes (-f)

/-- `calc_count` on the state (default strategy): every `temp` is recomputed from the children's `temp` -/
def calcPlain (nodes : List NType) (s : St) (i : Nat) : St :=
  match nodes.getD i .tru with
  | .and cs => setTemp s i (prodNat (cs.map (tempOf s)))
  | .or cs => setTemp s i (sumNat (cs.map (tempOf s)))
  | .fls => setTemp s i 0
  | _ => setTemp s i 1

/-- the loop of `operate_on_partial_config_default` -/
def defaultLoop (nodes : List NType) (s : St) (negs : List Int) : St × Nat :=
  let s := (List.range nodes.length).foldl (fun s i =>
    match nodes.getD i .tru with
    | .lit l => if negs.contains l then setTemp s i 0 else calcPlain nodes s i
    | _ => calcPlain nodes s i) s
  (s, tempOf s (rootIx nodes))

/-- `Ddnnf::execute_query` on the state: the dispatch of `execQueryCore` (Model/Query.lean) with the
stateful strategies -/
def execQuerySt (nodes : List NType) (n : Nat) (s : St) (A : List Int) : St × Nat :=
  let core := coreOf nodes n
  let rc := count nodes (rootIx nodes)
  match A with
  | [] => (s, rc)
  | [f] =>
      if core.contains f then (s, rc)
      else if core.contains (-f) then (s, 0)
      else match leafIx nodes (-f) with
        | some i => operateOnMarker nodes s [i]
        | none => (s, rc)
  | _ =>
      if A.any (fun f => core.contains (-f)) then (s, 0)
      else
        let A' := A.filter (fun f => !core.contains f)
        if A.length ≤ 20 then
          let idx := opposing nodes A'
          if idx.isEmpty then (s, rc) else operateOnMarker nodes s idx
        else defaultLoop nodes s (A'.map (fun f => -f))

/-- `preprocess_config_creation(assumptions)` followed by the `execute_query(assumptions)` that
`enumerate` / `uniform_random_sampling` run before they read the `temp` fields: every `temp` is reset to
the cached count, the complementary leaves of the assumptions and the True nodes get 0, then the count
under the assumptions recomputes what depends on them.  `none`: an assumption is out of range. -/
def prepareConfigs (nodes : List NType) (n : Nat) (s : St) (A : List Int) : Option (St × Nat) :=
  if A.any (fun f => f.natAbs > n) then none
  else
    let s := { s with ns := s.ns.map fun x => { x with temp := x.count } }
    let s := A.foldl (fun s f => match leafIx nodes (-f) with | some i => setTemp s i 0 | none => s) s
    let s := (List.range nodes.length).foldl (fun s i => if nodes.getD i .fls == .tru then setTemp s i 0 else s) s
    some (execQuerySt nodes n s A)

/-- nothing is marked and `md` is empty: the state every request must leave behind -/
def Clean (s : St) : Prop := s.md = [] ∧ ∀ i, markerOf s i = false

/-- the counts are the cached counts of the node array -/
def CountsOK (nodes : List NType) (s : St) : Prop :=
  s.ns.size = nodes.length ∧ ∀ i, i < nodes.length → countOf s i = count nodes i

end Ddnnf.MS
