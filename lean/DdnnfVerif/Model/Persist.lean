/-
  Saving and (re)loading in c2d format: models of
    ddnnife/src/parser/persisting.rs   (write_ddnnf_to_file, deconstruct_node)
    ddnnife/src/parser/c2d_lexer.rs    (lex_line_c2d: alternatives header, `A 0`, `O 0 0`, and, or, ±literal)
    ddnnife/src/parser.rs              (build_c2d_ddnnf)
    ddnnife/src/parser/intermediate_representation.rs (IntermediateGraph::rebuild: DFS post-order flattening)
  Lines are lists of tokens; rendering tokens as decimal text and splitting text into tokens is
  trusted glue, tied by comparing the rendered file with the real writer's bytes.
-/
import DdnnfVerif.Model.Basic
namespace Ddnnf

inductive Tk where
  | kw (s : String)
  | num (i : Int)
deriving Repr, DecidableEq

def Tk.render : Tk → String
  | .kw s => s
  | .num i => toString i

def natTk (k : Nat) : Tk := .num (k : Int)

/-- `deconstruct_node` -/
def writeNode : NType → List Tk
  | .and cs => [.kw "A", natTk cs.length] ++ cs.map natTk
  | .or cs => [.kw "O", natTk 0, natTk cs.length] ++ cs.map natTk
  | .lit l => [.kw "L", .num l]
  | .tru => [.kw "A", natTk 0]
  | .fls => [.kw "O", natTk 0, natTk 0]

/-- `write_ddnnf_to_file`: header `nnf <nodes> 0 <variables>` and one line per node -/
def writeFile (nodes : List NType) (n : Nat) : List (List Tk) :=
  [.kw "nnf", natTk nodes.length, natTk 0, natTk n] :: nodes.map writeNode

def renderLine (l : List Tk) : String := " ".intercalate (l.map Tk.render)
def renderFile (ls : List (List Tk)) : String := "\n".intercalate (ls.map renderLine)

def tkNat? : Tk → Option Nat
  | .num i => if i ≥ 0 then some i.toNat else none
  | _ => none

def allNats (ts : List Tk) : Option (List Nat) := ts.mapM tkNat?

/-- `lex_line_c2d` on a node line (the alternatives in the code's order; `A 0` and `O 0 0` are matched
as prefixes before the general and/or forms) -/
def lexNode : List Tk → Option NType
  | .kw "A" :: .num 0 :: _ => some .tru
  | .kw "O" :: .num 0 :: .num 0 :: _ => some .fls
  | .kw "A" :: _ :: cs => (allNats cs).map .and
  | .kw "O" :: _ :: _ :: cs => (allNats cs).map .or
  | [.kw "L", .num l] => some (.lit l)
  | _ => none

/-- header and node lines of a c2d file: `(variables, nodes in file order)` -/
def parseFile : List (List Tk) → Option (Nat × List NType)
  | [.kw "nnf", _, _, v] :: rest =>
      match tkNat? v, rest.mapM lexNode with
      | some n, some nodes => some (n, nodes)
      | _, _ => none
  | _ => none

/-- an and/or node without children is written as the constant it denotes -/
def normalizeNode : NType → NType
  | .and [] => .tru
  | .or [] => .fls
  | nd => nd

/-! ### `IntermediateGraph::rebuild`: post-order flattening from the root

petgraph's `DfsPostOrder` visits the successors of a node in insertion order of the edges (the
children in file order); the children list of the flattened node is `graph.neighbors(nx)`, i.e. the
reverse insertion order, mapped to the new indices.  Unreachable nodes are dropped. -/

structure FlatSt where
  newIx : Array (Option Nat)      -- file index ↦ index in the flattened array
  out : Array NType

def remap (st : FlatSt) (cs : List Nat) : List Nat :=
  (cs.map fun c => (st.newIx.getD c none).getD 0).reverse

/-- `fuel` bounds the recursion depth (children have smaller file indices than their parents) -/
def flatVisit (file : List NType) : Nat → Nat → FlatSt → FlatSt
  | 0, _, st => st
  | fuel + 1, i, st =>
      if (st.newIx.getD i none).isSome then st
      else
        let nd := file.getD i .fls
        let st' := (children nd).foldl (fun s c => flatVisit file fuel c s) st
        let nd' := match nd with
          | .and cs => .and (remap st' cs)
          | .or cs => .or (remap st' cs)
          | other => other
        { newIx := st'.newIx.setIfInBounds i (some st'.out.size), out := st'.out.push nd' }

/-- the node array ddnnife builds from the nodes of a c2d file (root = last line) -/
def flatten (file : List NType) : List NType :=
  (flatVisit file (file.length + 1) (file.length - 1)
    { newIx := Array.replicate file.length none, out := #[] }).out.toList

/-- save, then load the saved file with the c2d loader -/
def saveReload (nodes : List NType) (n : Nat) : Option (Nat × List NType) :=
  (parseFile (writeFile nodes n)).map fun (v, file) => (v, flatten file)

end Ddnnf
