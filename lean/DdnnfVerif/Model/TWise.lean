/-
  t-wise samples (C09): an executable checker of a sample against a node array.

  The t-wise construction of ddnnife (`anomalies/t_wise_sampling/*`) depends on hash iteration order
  and on a random number generator; it is not re-modelled.  Instead every sample the real code
  returns is handed to this checker, and the checker is proved sound (`Proofs/TWise.lean`): if it
  accepts, the sample consists of complete configurations that are models, and every t-interaction
  that is contained in a model is contained in a configuration of the sample.
-/
import DdnnfVerif.Model.Query
namespace Ddnnf.TWise

/-- the `k`-element sublists of `xs` (in order) -/
def combos : Nat → List Nat → List (List Nat)
  | 0, _ => [[]]
  | _ + 1, [] => []
  | k + 1, x :: xs => (combos k xs).map (x :: ·) ++ combos (k + 1) xs

/-- all ways to give the features a sign -/
def signings : List Nat → List (List Int)
  | [] => [[]]
  | v :: vs => (signings vs).flatMap fun r => [((v : Int)) :: r, (-(v : Int)) :: r]

/-- all sets of `t` literals over distinct features of `1..n`, each once (features ascending) -/
def interactions (n t : Nat) : List (List Int) :=
  (combos t ((List.range n).map (· + 1))).flatMap signings

/-- one literal per feature `1..n`, in any order -/
def completeB (n : Nat) (c : Config) : Bool :=
  c.length == n && (List.range n).all fun k =>
    (c.contains ((k + 1 : Nat) : Int) != c.contains (-((k + 1 : Nat) : Int)))

/-- the configuration as an assignment: feature `v` is selected iff the literal `v` is listed -/
def assignOfCfg (c : Config) : Assignment := fun v => c.contains (v : Int)

def cfgIsModel (nodes : List NType) (n : Nat) (c : Config) : Bool :=
  completeB n c && eval (assignOfCfg c) nodes (rootIx nodes)

def coveredBy (sample : List Config) (I : List Int) : Bool :=
  sample.any fun c => I.all fun l => c.contains l

/-- accept iff every configuration is a complete model and every satisfiable t-interaction is covered -/
def check (nodes : List NType) (n t : Nat) (sample : List Config) : Bool :=
  sample.all (cfgIsModel nodes n) &&
    (interactions n t).all fun I => execQuery nodes n I == 0 || coveredBy sample I

/-- diagnostic form for the driver -/
def verdict (nodes : List NType) (n t : Nat) (sample : List Config) : String :=
  match sample.find? (fun c => !cfgIsModel nodes n c) with
  | some c => "invalid-configuration " ++ " ".intercalate (c.map toString)
  | none =>
      match (interactions n t).find? (fun I => !(execQuery nodes n I == 0 || coveredBy sample I)) with
      | some I => "uncovered-interaction " ++ " ".intercalate (I.map toString)
      | none => "ok"

end Ddnnf.TWise
