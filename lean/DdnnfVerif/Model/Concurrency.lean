/-
  Concurrency models.

  * `Stream`: the reader / workers / printer protocol of `Ddnnf::init_stream`
    (ddnnife/src/ddnnf/stream.rs) as a state machine over the events emitted by the
    `verif_hooks::point` calls (push, pull, send, recv, print, exit/eof, park, unpark, done).
  * `QueryFile`: `queries_multi_thread` (ddnnife/src/ddnnf/multiple_queries.rs): results arrive in
    any order, are sorted by index and formatted.
  * `EnumLock`: concurrent enumeration requests on one cursor, with the cursor section (a) protected
    by the lock from read to write (the code after the repair), (b) split into two lock
    acquisitions (the code before the repair).
-/
import DdnnfVerif.Model.Enum
namespace Ddnnf

namespace Stream

inductive Ev where
  | push (id : Nat)      -- main: about to push line `id` into the work queue
  | pull (id : Nat)      -- a worker pulled line `id`
  | send (id : Nat)      -- a worker is about to send the answer to line `id`
  | recv (id : Nat)      -- main received the answer to line `id`
  | print (id : Nat)     -- main printed the answer to line `id`
  | stop (id : Nat)      -- main read `exit` or end of input after `id` lines
  | park | unpark
  | done (id : Nat)      -- main left the waiting loop having printed `id` answers
deriving Repr, DecidableEq

structure S where
  nextId : Nat := 0            -- lines accepted so far
  queue : List Nat := []       -- accepted, not yet pulled
  inflight : List Nat := []    -- pulled, answer not yet sent
  channel : List Nat := []     -- sent, not yet received
  heap : List Nat := []        -- received, not yet printed
  outputId : Nat := 0          -- answers printed so far
  remaining : Nat := 0         -- `remaining_answers`
  printed : List Nat := []     -- ids in print order
  stopped : Bool := false
  finished : Bool := false
deriving Repr, DecidableEq

def step (s : S) : Ev → Option S
  | .push id =>
      if !s.stopped && id == s.nextId then
        some { s with nextId := s.nextId + 1, queue := s.queue ++ [id], remaining := s.remaining + 1 }
      else none
  | .pull id =>
      if s.queue.contains id then
        some { s with queue := s.queue.erase id, inflight := id :: s.inflight }
      else none
  | .send id =>
      if s.inflight.contains id then
        some { s with inflight := s.inflight.erase id, channel := s.channel ++ [id] }
      else none
  | .recv id =>
      if s.channel.contains id && s.remaining > 0 then
        some { s with channel := s.channel.erase id, heap := id :: s.heap, remaining := s.remaining - 1 }
      else none
  | .print id =>
      if id == s.outputId && s.heap.contains id then
        some { s with heap := s.heap.erase id, outputId := s.outputId + 1, printed := s.printed ++ [id] }
      else none
  | .stop id => if !s.stopped && id == s.nextId then some { s with stopped := true } else none
  | .park => some s
  | .unpark => if s.remaining > 0 then some s else none
  | .done id =>
      -- the waiting loop ends when `remaining_answers == 0`; `print_result` ran after the last receive
      if s.stopped && s.remaining == 0 && !s.heap.contains s.outputId && id == s.outputId then
        some { s with finished := true }
      else none

def run (s : S) : List Ev → Option S
  | [] => some s
  | e :: es => match step s e with
      | some s' => run s' es
      | none => none

/-- index of the first rejected event, for diagnostics -/
def firstRejected (s : S) : List Ev → Nat → Option Nat
  | [], _ => none
  | e :: es, i => match step s e with
      | some s' => firstRejected s' es (i + 1)
      | none => some i

end Stream

namespace QueryFile

def insertIdx (x : Nat × List Int × String) : List (Nat × List Int × String) → List (Nat × List Int × String)
  | [] => [x]
  | y :: ys => if x.1 ≤ y.1 then x :: y :: ys else y :: insertIdx x ys

/-- `results.sort_unstable()`: indices are distinct, so sorting by index is the whole order -/
def sortIdx (xs : List (Nat × List Int × String)) : List (Nat × List Int × String) := xs.foldr insertIdx []

def fmtLine (q : List Int) (ans : String) : String :=
  " ".intercalate (q.map toString) ++ "," ++ ans ++ "\n"

/-- single-threaded evaluation: one line per query in file order -/
def seqOut (f : List Int → String) (qs : List (List Int)) : List String :=
  qs.map fun q => fmtLine q (f q)

/-- what the workers produce, in file order, before it is scattered by scheduling -/
def indexed (f : List Int → String) (qs : List (List Int)) (start : Nat) : List (Nat × List Int × String) :=
  match qs with
  | [] => []
  | q :: rest => (start, q, f q) :: indexed f rest (start + 1)

/-- multi-threaded evaluation for one order of arrival of the results -/
def parOut (arrivals : List (Nat × List Int × String)) : List String :=
  (sortIdx arrivals).map fun r => fmtLine r.2.1 r.2.2

end QueryFile

namespace EnumLock

/-- the four steps of one enumeration request `t` on the shared cursor -/
inductive Ev where
  | acquire (t : Nat) | read (t : Nat) | write (t : Nat) | release (t : Nat)
deriving Repr, DecidableEq

structure S (α : Type) where
  pos : Nat := 0                          -- the cursor position for the key
  holder : Option Nat := none             -- who holds the lock
  readVal : List (Nat × Nat) := []        -- position read by request t
  pages : List (Nat × List α) := []       -- answers, in order of completion
  phase : List (Nat × Nat) := []          -- steps done by request t (0..4)

def phaseOf {α} (s : S α) (t : Nat) : Nat := ((s.phase.find? (·.1 == t)).map (·.2)).getD 0
def setPhase {α} (s : S α) (t : Nat) (p : Nat) : S α :=
  { s with phase := (t, p) :: s.phase.filter (fun e => e.1 != t) }

def pageOf {α} (ms : List α) (pos k : Nat) : List α := (ms.take (min ms.length (pos + k))).drop pos
def nextOf {α} (ms : List α) (pos k : Nat) : Nat := min ms.length (pos + k) % ms.length

/-- (a) the lock is held from `acquire` to `release`; `read`/`write` need the lock -/
def stepLocked {α} (ms : List α) (amount : Nat → Nat) (s : S α) : Ev → Option (S α)
  | .acquire t => if s.holder.isNone && phaseOf s t == 0 then some (setPhase { s with holder := some t } t 1) else none
  | .read t => if s.holder == some t && phaseOf s t == 1 then
      some (setPhase { s with readVal := (t, s.pos) :: s.readVal } t 2) else none
  | .write t => if s.holder == some t && phaseOf s t == 2 then
      let last := ((s.readVal.find? (·.1 == t)).map (·.2)).getD 0
      some (setPhase { s with pos := nextOf ms last (amount t),
                              pages := s.pages ++ [(t, pageOf ms last (amount t))] } t 3) else none
  | .release t => if s.holder == some t && phaseOf s t == 3 then some (setPhase { s with holder := none } t 4) else none

/-- (b) before the repair: `read` and `write` each take the lock only for themselves -/
def stepSplit {α} (ms : List α) (amount : Nat → Nat) (s : S α) : Ev → Option (S α)
  | .acquire _ => some s
  | .release _ => some s
  | .read t => if phaseOf s t == 0 then
      some (setPhase { s with readVal := (t, s.pos) :: s.readVal } t 2) else none
  | .write t => if phaseOf s t == 2 then
      let last := ((s.readVal.find? (·.1 == t)).map (·.2)).getD 0
      some (setPhase { s with pos := nextOf ms last (amount t),
                              pages := s.pages ++ [(t, pageOf ms last (amount t))] } t 3) else none

def runWith {α} (stp : S α → Ev → Option (S α)) (s : S α) : List Ev → Option (S α)
  | [] => some s
  | e :: es => match stp s e with
      | some s' => runWith stp s' es
      | none => none

/-- sequential processing of the requests in the order `ts` -/
def serial {α} (ms : List α) (amount : Nat → Nat) : Nat → List Nat → List (Nat × List α)
  | _, [] => []
  | pos, t :: rest => (t, pageOf ms pos (amount t)) :: serial ms amount (nextOf ms pos (amount t)) rest

end EnumLock

end Ddnnf
