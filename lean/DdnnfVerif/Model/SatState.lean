/-
  SAT by mark propagation with the caller-owned mark vector made explicit: model of
  `Ddnnf::sat_propagate` / `propagate_mark` (ddnnife/src/ddnnf/anomalies/sat.rs).

  `Model/Query.lean` describes the marks as a bottom-up pass (`fSatMark`: the least fixpoint); here
  the imperative algorithm is modelled: the recursion from a literal leaf upwards through `parents`,
  the "already marked" cut, the or-rule evaluated at the moment a child reports, the early return
  when the root gets marked, and the vector that survives between calls.
-/
import DdnnfVerif.Model.MarkState
namespace Ddnnf.SatS

def markOf (m : Array Bool) (i : Nat) : Bool := m.getD i false

/-- `propagate_mark(index, mark)`; parents have larger indices, `fuel` bounds the recursion -/
def propagateMark (nodes : List NType) : Nat → Array Bool → Nat → Array Bool
  | 0, m, _ => m
  | fuel + 1, m, i =>
      if markOf m i then m
      else
        let blocked := match nodes.getD i .tru with
          | .or cs => !(cs.all fun c => markOf m c || count nodes c == 0)
          | _ => false
        if blocked then m
        else (MS.parentsOf nodes i).foldl (fun m p => propagateMark nodes fuel m p) (m.setIfInBounds i true)

/-- the loop of `sat_propagate` over the features: stops as soon as the root is marked -/
def propagateAll (nodes : List NType) (root : Nat) : Array Bool → List Int → Array Bool × Bool
  | m, [] => (m, !markOf m root)
  | m, f :: rest =>
      match MS.leafIx nodes (-f) with
      | some i =>
          let m := propagateMark nodes nodes.length m i
          if markOf m root then (m, false) else propagateAll nodes root m rest
      | none => propagateAll nodes root m rest

/-- `sat_propagate(features, mark, None)`: the new content of the caller's vector and the answer -/
def satPropagate (nodes : List NType) (n : Nat) (m : Array Bool) (A : List Int) : Array Bool × Bool :=
  if A.any (fun f => (coreOf nodes n).contains (-f)) then (m, false)
  else propagateAll nodes (rootIx nodes) m A

/-- `sat(features)`: a fresh vector per call -/
def sat (nodes : List NType) (n : Nat) (A : List Int) : Bool :=
  (satPropagate nodes n (Array.replicate nodes.length false) A).2

/-- incremental use: the vector is kept between the calls (decision propagation) -/
def satChunks (nodes : List NType) (n : Nat) : Array Bool → List (List Int) → Array Bool × List Bool
  | m, [] => (m, [])
  | m, A :: rest =>
      let (m', b) := satPropagate nodes n m A
      let (m'', bs) := satChunks nodes n m' rest
      (m'', b :: bs)

end Ddnnf.SatS
