/-
  Incremental edit by a unit clause: model of `IntermediateGraph::add_unit_clause` followed by
  `Ddnnf::rebuild` (ddnnife/src/parser/intermediate_representation.rs, ddnnife/src/ddnnf.rs) on the
  flattened node array.

  After `rebuild` the petgraph of the intermediate graph and the node array describe the same DAG:
  `graph.neighbors(nx)` of a node is its `children` list (in that order).  `DfsPostOrder` visits the
  successors in the reverse of that order and the flattened node keeps the neighbour order, so
  re-flattening an array is `flatten` (Model/Persist.lean: visit in list order, store reversed) on the
  array with reversed child lists.

  * old feature: the leaf of the complementary literal is removed together with every chain of
    and-ancestors (an and-node with a removed child is removed); or-nodes lose the edge;
  * new feature (|f| > n): the root becomes / stays an and-node that additionally holds the new
    literal and an or-triangle for every feature between n and |f| (repaired code).
-/
import DdnnfVerif.Model.Persist
namespace Ddnnf

def revCh : NType → NType
  | .and cs => .and cs.reverse
  | .or cs => .or cs.reverse
  | nd => nd

/-- `rebuild` of a graph given as an array whose last entry is the root -/
def reflatten (nodes : List NType) : List NType := flatten (nodes.map revCh)

/-- is node `i` removed by the unit clause `f`: the leaf `-f`, or an and-node with a removed child -/
def fRemoved (f : Int) (nd : NType) (g : Nat → Bool) : Bool :=
  match nd with
  | .lit l => l == -f
  | .and cs => cs.any g
  | _ => false

def removedBy (nodes : List NType) (f : Int) (i : Nat) : Bool := val false (fRemoved f) nodes i

def pruneNode (r : Nat → Bool) : NType → NType
  | .and cs => .and (cs.filter fun c => !r c)
  | .or cs => .or (cs.filter fun c => !r c)
  | nd => nd

/-- unit clause over an old feature -/
def addUnitOld (nodes : List NType) (f : Int) : List NType :=
  reflatten (nodes.map (pruneNode (removedBy nodes f)))

/-- unit clause over a new feature: `n` is the current feature count, `|f| > n` -/
def addUnitNew (nodes : List NType) (n : Nat) (f : Int) : List NType :=
  let (base, rootAnd) : List NType × Option (List Nat) :=
    match nodes.getLast? with
    | some (.and cs) => (nodes.dropLast, some cs)
    | _ => (nodes, none)
  let b := base.length
  let mids := List.range (f.natAbs - 1 - n)
  let newNodes : List NType := mids.flatMap fun j =>
    [.lit ((n + 1 + j : Nat) : Int), .lit (-((n + 1 + j : Nat) : Int)), .or [b + 3 * j + 1, b + 3 * j]]
  let litIx := b + 3 * mids.length
  let orIxs := mids.map fun j => b + 3 * j + 2
  let old : List Nat := match rootAnd with
    | some cs => cs
    | none => [nodes.length - 1]
  reflatten (base ++ newNodes ++ [.lit f] ++ [.and ([litIx] ++ orIxs.reverse ++ old)])

/-- `prepare_and_apply_incremental_edit(vec![(vec![f], Add)])` on a model with `n` features:
the new feature count and node array -/
def addUnit (nodes : List NType) (n : Nat) (f : Int) : Nat × List NType :=
  if f.natAbs ≤ n then (n, addUnitOld nodes f) else (f.natAbs, addUnitNew nodes n f)

end Ddnnf
