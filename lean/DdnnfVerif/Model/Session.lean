/-
  A loaded model as a state machine over requests: the only state that survives a request is the
  enumeration cursor (after the repair it is a field of the loaded model).  Scratch fields of ddnnife
  (`temp`, `marker`, `partial_derivative`, `md`) are written before they are read by every operation;
  the model therefore has no such state, and the correspondence check (C16 harness: long-lived
  instance vs fresh instance vs clone, request by request) is what ties that abstraction to the code.
-/
import DdnnfVerif.Model.Enum
import DdnnfVerif.Model.Optimal
namespace Ddnnf

inductive Req where
  | count (A : List Int)
  | sat (A : List Int)
  | core (A : List Int)
  | table
  | enum (A : List Int) (k : Nat)
deriving Repr, DecidableEq

inductive Resp where
  | num (x : Nat)
  | bool (b : Bool)
  | lits (xs : List Int)
  | nums (xs : List Nat)
  | configs (cs : Option (List Config))
deriving Repr, DecidableEq

def Req.isPaging : Req → Bool
  | .enum _ _ => true
  | _ => false

/-- one request on a loaded model -/
def respond (nodes : List NType) (n : Nat) (cur : Cursor) : Req → Cursor × Resp
  | .count A => (cur, .num (execQuery nodes n A))
  | .sat A => (cur, .bool (satQuery nodes n A))
  | .core A => (cur, .lits (coreDeadA nodes n A))
  | .table => (cur, .nums (cardPD nodes n))
  | .enum A k => let r := enumerate nodes n cur A k; (r.1, .configs r.2)

/-- a history of requests on one loaded model -/
def runSession (nodes : List NType) (n : Nat) : Cursor → List Req → Cursor × List Resp
  | cur, [] => (cur, [])
  | cur, r :: rest =>
      let (cur', a) := respond nodes n cur r
      let (cur'', as) := runSession nodes n cur' rest
      (cur'', a :: as)

/-- a process holding two loaded models; a request is addressed to one of them -/
def respond2 (m₁ m₂ : List NType × Nat) (st : Cursor × Cursor) (r : Bool × Req) : (Cursor × Cursor) × Resp :=
  if r.1 then let x := respond m₁.1 m₁.2 st.1 r.2; ((x.1, st.2), x.2)
  else let x := respond m₂.1 m₂.2 st.2 r.2; ((st.1, x.1), x.2)

def runProcess (m₁ m₂ : List NType × Nat) : Cursor × Cursor → List (Bool × Req) → (Cursor × Cursor) × List Resp
  | st, [] => (st, [])
  | st, r :: rest =>
      let (st', a) := respond2 m₁ m₂ st r
      let (st'', as) := runProcess m₁ m₂ st' rest
      (st'', a :: as)

end Ddnnf
