/-
  Atomic sets: model of ddnnife/src/ddnnf/anomalies/atomic_sets.rs (`get_atomic_sets`,
  `incremental_subset_check`, `UnionFind`, `sort_and_clean_atomicsets`).
  The union-find structure is abstracted to a list of classes; `UnionFind::subsets` only reports
  elements that took part in a union, i.e. the classes with at least two members.
  The prefilter by 512 uniform random samples (seed 10) is a parameter `samples`: a pair whose signs
  differ in some sample is skipped without the confirming count query.
-/
import DdnnfVerif.Model.Query
namespace Ddnnf

abbrev Classes := List (List Int)

def classOf (cl : Classes) (x : Int) : List Int :=
  match cl.find? (fun c => c.contains x) with
  | some c => c
  | none => [x]

def equivC (cl : Classes) (x y : Int) : Bool := (classOf cl x).contains y

/-- `union(x, y)` -/
def unionC (cl : Classes) (x y : Int) : Classes :=
  if equivC cl x y then cl
  else (classOf cl x ++ classOf cl y) :: cl.filter (fun c => !(c.contains x) && !(c.contains y))

/-- `iter.combinations(2)` in order -/
def pairs : List Int → List (Int × Int)
  | [] => []
  | x :: xs => xs.map (fun y => (x, y)) ++ pairs xs

/-- the sign of literal `l` in sample `s` (a complete configuration): is feature |l| selected? -/
def selectedIn (s : Config) (v : Nat) : Bool := s.contains (v : Int)

/-- the prefilter: in some sample the two literals have different truth values -/
def differInSample (samples : List Config) (x y : Int) : Bool :=
  samples.any fun s =>
    let bx := if (x > 0) == (y > 0) then selectedIn s x.natAbs else !selectedIn s x.natAbs
    bx != selectedIn s y.natAbs

/-- `incremental_subset_check` for one group of candidates with the same count `control` -/
def subsetCheck (nodes : List NType) (n : Nat) (A : List Int) (samples : List Config)
    (control : Nat) (group : List Int) (cl : Classes) : Classes :=
  (pairs group).foldl (fun cl (x, y) =>
    if equivC cl x y then cl
    else if differInSample samples x y then cl
    else if execQuery nodes n ([x, y] ++ A) == control then unionC cl x y
    else cl) cl

def insertBy {α} (lt : α → α → Bool) (x : α) : List α → List α
  | [] => [x]
  | y :: ys => if lt x y then x :: y :: ys else y :: insertBy lt x ys
def sortBy' {α} (lt : α → α → Bool) (xs : List α) : List α := xs.foldr (insertBy lt) []

def lexLt : List Int → List Int → Bool
  | [], [] => false
  | [], _ :: _ => true
  | _ :: _, [] => false
  | x :: xs, y :: ys => if x < y then true else if y < x then false else lexLt xs ys

/-- group the `(count, literal)` pairs sorted by `(count, literal)` into runs of equal count -/
def groupByCount : List (Nat × Int) → List (Nat × List Int)
  | [] => []
  | (k, v) :: rest =>
      match groupByCount rest with
      | (k', vs) :: gs => if k == k' then (k, v :: vs) :: gs else (k, [v]) :: (k', vs) :: gs
      | [] => [(k, [v])]

def dedupFirstAbs : List (List Int) → List (List Int)
  | a :: b :: rest =>
      if (a.headD 0).natAbs == (b.headD 0).natAbs then dedupFirstAbs (a :: rest) else a :: dedupFirstAbs (b :: rest)
  | l => l

/-- `get_atomic_sets(candidates, assumptions, cross)` -/
def atomicSets (nodes : List NType) (n : Nat) (cands : List Nat) (A : List Int) (cross : Bool)
    (samples : List Config) : List (List Int) :=
  if cands.isEmpty then []
  else
    let combos : List (Nat × Int) := cands.flatMap fun (f : Nat) =>
      let sf : Int := (f : Int)
      (execQuery nodes n ([sf] ++ A), sf) ::
        (if cross then [(execQuery nodes n ([-sf] ++ A), -sf)] else [])
    let sorted := sortBy' (fun (a b : Nat × Int) => a.1 < b.1 || (a.1 == b.1 && a.2 < b.2)) combos
    let classes := (groupByCount sorted).foldl (fun cl (k, g) => subsetCheck nodes n A samples k g cl) []
    let sets := classes.filter (fun c => c.length ≥ 2)
    if cross then
      let sets := sets.map (sortBy' (fun a b => a.natAbs < b.natAbs))
      let sets := sortBy' (fun (a b : List Int) =>
        (a.headD 0).natAbs < (b.headD 0).natAbs || ((a.headD 0).natAbs == (b.headD 0).natAbs && a.headD 0 < b.headD 0)) sets
      dedupFirstAbs sets
    else
      sortBy' lexLt (sets.map (sortBy' (fun a b => a < b)))

end Ddnnf
