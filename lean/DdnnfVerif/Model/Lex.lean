/-
  Character-level models of the two line lexers (nom combinators) and of the text-level entry of the
  loaders:
    ddnnife/src/parser/c2d_lexer.rs   lex_line_c2d  (alt: header, true, false, and, or, +literal, -literal),
                                      parse_alt_space1_number1, split_numbers
    ddnnife/src/parser/d4_lexer.rs    lex_line_d4   (alt: edge, or, and, true, false),
                                      parse_signed_alt_space1_number1
    ddnnife/src/parser.rs             distribute_building (header test on the trimmed first line),
                                      build_c2d_ddnnf / build_d4_ddnnf (`lex_line_*(line).unwrap()`)
  A line is a `List Char`.  A parser yields `ok` (with the unconsumed rest dropped, as the callers do),
  `fail` (nom `Err`: the next alternative is tried; for the caller's `unwrap` a panic) or `panic`
  (`split_numbers` / `parse::<i32>` on a number outside the type, indexing `nums[k]` out of range).
-/
import DdnnfVerif.Model.Persist
import DdnnfVerif.Model.D4Load
namespace Ddnnf.Lex

inductive Res (α : Type) where
  | ok (a : α)
  | fail
  | panic
deriving Repr, DecidableEq

/-- nom `digit1`: the longest non-empty prefix of ASCII digits and the rest -/
def digit1 (cs : List Char) : Option (List Char × List Char) :=
  let ds := cs.takeWhile Char.isDigit
  if ds.isEmpty then none else some (ds, cs.dropWhile Char.isDigit)

/-- nom `space1`: one or more blanks or tabs -/
def space1 (cs : List Char) : Option (List Char) :=
  let ws := cs.takeWhile fun c => c == ' ' || c == '\t'
  if ws.isEmpty then none else some (cs.dropWhile fun c => c == ' ' || c == '\t')

def natOf (ds : List Char) : Nat := ds.foldl (fun a c => 10 * a + (c.toNat - 48)) 0

/-- `"…".parse::<usize>()` on a string of digits (64-bit) -/
def parseUsize (ds : List Char) : Option Nat :=
  let v := natOf ds
  if v < 2 ^ 64 then some v else none

/-- `"…".parse::<i32>()` on an optional minus sign and digits -/
def parseI32 (neg : Bool) (ds : List Char) : Option Int :=
  let v := natOf ds
  if neg then (if v ≤ 2 ^ 31 then some (-(v : Int)) else none)
  else (if v < 2 ^ 31 then some (v : Int) else none)

def stripPrefix (p : List Char) (cs : List Char) : Option (List Char) :=
  if p.isPrefixOf cs then some (cs.drop p.length) else none

/-! ### c2d -/

/-- `many1(pair(char(' '), digit1))`: the digit groups of the longest prefix of the form (" " digits)+;
`fuel` bounds the number of groups (each consumes at least two characters) -/
def spaceNums : Nat → List Char → List (List Char)
  | 0, _ => []
  | fuel + 1, cs =>
      match cs with
      | ' ' :: rest =>
          match digit1 rest with
          | some (ds, rest') => ds :: spaceNums fuel rest'
          | none => []
      | _ => []

/-- `parse_alt_space1_number1` followed by `split_numbers::<usize>` -/
def numbersAfter (cs : List Char) : Res (List Nat) :=
  match spaceNums cs.length cs with
  | [] => .fail
  | groups =>
      match groups.mapM parseUsize with
      | some ns => .ok ns
      | none => .panic

inductive CTok where
  | header (nodes edges vars : Nat)
  | node (nd : NType)
deriving Repr, DecidableEq

def lexHeader (cs : List Char) : Res CTok :=
  match stripPrefix "nnf".toList cs with
  | none => .fail
  | some rest =>
      match numbersAfter rest with
      | .ok (a :: b :: c :: _) => .ok (.header a b c)
      | .ok _ => .panic                       -- `nums[1]` / `nums[2]` out of range
      | .fail => .fail
      | .panic => .panic

def lexAnd (cs : List Char) : Res CTok :=
  match cs with
  | 'A' :: rest =>
      match numbersAfter rest with
      | .ok (_ :: children) => .ok (.node (.and children))
      | .ok [] => .fail
      | .fail => .fail
      | .panic => .panic
  | _ => .fail

def lexOr (cs : List Char) : Res CTok :=
  match cs with
  | 'O' :: rest =>
      match numbersAfter rest with
      | .ok (_ :: _ :: children) => .ok (.node (.or children))
      | .ok _ => .panic                       -- the second `nums.remove(0)`
      | .fail => .fail
      | .panic => .panic
  | _ => .fail

def lexLit (cs : List Char) : Res CTok :=
  match stripPrefix "L ".toList cs with
  | none => .fail
  | some rest =>
      match digit1 rest with
      | some (ds, _) => (match parseI32 false ds with | some l => .ok (.node (.lit l)) | none => .panic)
      | none =>
          match rest with
          | '-' :: rest' =>
              match digit1 rest' with
              | some (ds, _) => (match parseI32 true ds with | some l => .ok (.node (.lit l)) | none => .panic)
              | none => .fail
          | _ => .fail

/-- `lex_line_c2d`: the alternatives in the order of the code; `A 0` and `O 0 0` are prefix tests -/
def lexC2d (cs : List Char) : Res CTok :=
  match lexHeader cs with
  | .ok t => .ok t
  | .panic => .panic
  | .fail =>
      if "A 0".toList.isPrefixOf cs then .ok (.node .tru)
      else if "O 0 0".toList.isPrefixOf cs then .ok (.node .fls)
      else match lexAnd cs with
        | .ok t => .ok t
        | .panic => .panic
        | .fail =>
            match lexOr cs with
            | .ok t => .ok t
            | .panic => .panic
            | .fail => lexLit cs

def trimAscii (cs : List Char) : List Char :=
  ((cs.dropWhile Char.isWhitespace).reverse.dropWhile Char.isWhitespace).reverse

/-- `distribute_building` + `build_c2d_ddnnf` on the lines of a file: `some (variables, nodes)` if the
trimmed first line is a header and every other line lexes to a node; `none` if the code panics or the
first line is no header (then the d4 loader is taken) -/
def parseC2dText (lines : List (List Char)) : Option (Nat × List NType) :=
  match lines with
  | [] => none
  | first :: rest =>
      match lexC2d (trimAscii first) with
      | .ok (.header _ _ v) =>
          (rest.mapM fun l => match lexC2d l with
            | .ok (.node nd) => some nd
            | _ => none).map fun nodes => (v, nodes)
      | _ => none

/-! ### d4 -/

/-- one `alt((pair(digit1, space1), pair(neg_digit1, space1)))` -/
def signedNumSpace (cs : List Char) : Option ((Bool × List Char) × List Char) :=
  match digit1 cs with
  | some (ds, rest) => (space1 rest).map fun rest' => ((false, ds), rest')
  | none =>
      match cs with
      | '-' :: cs' =>
          match digit1 cs' with
          | some (ds, rest) => (space1 rest).map fun rest' => ((true, ds), rest')
          | none => none
      | _ => none

/-- `many_m_n(2, MAX, …)` without the lower bound: greedy, no backtracking -/
def signedNums : Nat → List Char → List (Bool × List Char) × List Char
  | 0, cs => ([], cs)
  | fuel + 1, cs =>
      match signedNumSpace cs with
      | some (x, rest) => let (xs, r) := signedNums fuel rest; (x :: xs, r)
      | none => ([], cs)

def lexEdge (cs : List Char) : Res D4.Line :=
  let (groups, rest) := signedNums cs.length cs
  if groups.length < 2 then .fail
  else if !("0".toList.isPrefixOf rest) then .fail
  else
    match groups.mapM fun g => parseI32 g.1 g.2 with
    | none => .panic
    | some (a :: b :: feats) =>
        -- `indices[from as usize - 1]`: a non-positive node number panics
        if a ≤ 0 || b ≤ 0 then .panic else .ok (.edge a.toNat b.toNat feats)
    | some _ => .fail

def lexNodeLine (kw : Char) (k : D4.GK) (cs : List Char) : Res D4.Line :=
  match cs with
  | c :: ' ' :: rest => if c == kw && (digit1 rest).isSome then .ok (.node k) else .fail
  | _ => .fail

/-- `lex_line_d4`: edge, or, and, true, false -/
def lexD4 (cs : List Char) : Res D4.Line :=
  match lexEdge cs with
  | .ok t => .ok t
  | .panic => .panic
  | .fail =>
      match lexNodeLine 'o' .or cs with
      | .ok t => .ok t
      | _ =>
          match lexNodeLine 'a' .and cs with
          | .ok t => .ok t
          | _ =>
              match lexNodeLine 't' .tru cs with
              | .ok t => .ok t
              | _ => lexNodeLine 'f' .fls cs

/-- the lines of a d4 file (untrimmed, as the loader passes them): `none` = the loader panics in the lexer -/
def parseD4Text (lines : List (List Char)) : Option (List D4.Line) :=
  lines.mapM fun l => match lexD4 l with
    | .ok t => some t
    | _ => none

/-! ### the writer at character level -/

def renderNat (k : Nat) : List Char := (toString k).toList
def renderInt (i : Int) : List Char := (toString i).toList

/-- the characters `write_ddnnf_to_file` emits for a token line -/
def renderTokLine (l : List Tk) : List Char := (renderLine l).toList

/-- the normal form of a d4 line (what d4 writes and the harness generates); `k` is the number of a
node line -/
def renderD4 (l : D4.Line) (k : Nat) : List Char :=
  match l with
  | .node .or => 'o' :: ' ' :: renderNat k ++ [' ', '0']
  | .node .and => 'a' :: ' ' :: renderNat k ++ [' ', '0']
  | .node .tru => 't' :: ' ' :: renderNat k ++ [' ', '0']
  | .node .fls => 'f' :: ' ' :: renderNat k ++ [' ', '0']
  | .node (.lit _) => []
  | .edge a b fs => renderNat a ++ ' ' :: renderNat b ++ ' ' :: (fs.flatMap fun f => renderInt f ++ [' ']) ++ ['0']

end Ddnnf.Lex
