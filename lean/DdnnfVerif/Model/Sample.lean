/-
  Uniform random sampling: model of `sample_node` / `uniform_random_sampling`
  (ddnnife/src/ddnnf/anomalies/config_creation.rs, KUS scheme).

  The random source (rand_pcg::Pcg32, rand_distr::Binomial / WeightedAliasIndex, SliceRandom::shuffle)
  is not re-implemented.  Instead every random decision of a real run is an *event* (the hook records
  the split of the amount at an or-node and the result of every shuffle) and `replay` re-executes the
  algorithm along those events, checking that each one is a decision the algorithm may take: a split
  sums to the amount and gives nothing to children without models; a shuffle result is a permutation.
-/
import DdnnfVerif.Model.Query
namespace Ddnnf

inductive SEv where
  | andShuffle (node child : Nat) (result : List Config)
  | orPicks (node : Nat) (picks : List Nat)
  | orShuffle (node : Nat) (result : List Config)
deriving Repr, DecidableEq

/-- `sample_list[index].append(sample)` for the shuffled samples of one child -/
def stitch : List Config → List Config → List Config
  | s :: ss, c :: cs => (s ++ c) :: stitch ss cs
  | ss, [] => ss
  | [], _ => []

/-- is `a` a permutation of `b` (as lists of configurations) -/
def permCfgB : List Config → List Config → Bool
  | [], b => b.isEmpty
  | x :: xs, b => b.contains x && permCfgB xs (b.erase x)

mutual
/-- `sample_node(amount, i, rng)` along the recorded events; `fuel` bounds the depth (≥ number of nodes) -/
def replay (nodes : List NType) (temp : Nat → Nat) : Nat → Nat → Nat → List SEv → Option (List Config × List SEv)
  | 0, _, _, _ => none
  | _ + 1, 0, _, evs => some ([], evs)
  | fuel + 1, amount + 1, i, evs =>
      match nodes.getD i .fls with
      | .lit l => some (List.replicate (amount + 1) [l], evs)
      | .tru => some ([], evs)
      | .fls => some ([], evs)
      | .and cs => replayAnd nodes temp fuel (amount + 1) i cs (List.replicate (amount + 1) []) evs
      | .or cs =>
          match evs with
          | .orPicks node picks :: evs' =>
              if node == i && picks.length == cs.length && sumNat picks == amount + 1
                  && (cs.zip picks).all (fun (c, p) => temp c != 0 || p == 0) then
                match replayOr nodes temp fuel (cs.zip picks) evs' with
                | some (out, evs'') =>
                    let padded := out ++ List.replicate (amount + 1 - out.length) []
                    match evs'' with
                    | .orShuffle node' result :: rest =>
                        if node' == i && permCfgB result padded then some (result, rest) else none
                    | _ => none
                | none => none
              else none
          | _ => none
/-- the children of an and-node, one after the other: sample, shuffle (event), stitch -/
def replayAnd (nodes : List NType) (temp : Nat → Nat) : Nat → Nat → Nat → List Nat → List Config → List SEv → Option (List Config × List SEv)
  | _, _, _, [], acc, evs => some (acc, evs)
  | fuel, amount, i, c :: cs, acc, evs =>
      match replay nodes temp fuel amount c evs with
      | some (childOut, evs') =>
          match evs' with
          | .andShuffle node child result :: rest =>
              if node == i && child == c && permCfgB result childOut then
                replayAnd nodes temp fuel amount i cs (stitch acc result) rest
              else none
          | _ => none
      | none => none
/-- the chosen children of an or-node in order (children with temp 0 are not choices) -/
def replayOr (nodes : List NType) (temp : Nat → Nat) : Nat → List (Nat × Nat) → List SEv → Option (List Config × List SEv)
  | _, [], evs => some ([], evs)
  | fuel, (c, p) :: rest, evs =>
      if temp c == 0 then replayOr nodes temp fuel rest evs
      else
        match replay nodes temp fuel p c evs with
        | some (out, evs') =>
            match replayOr nodes temp fuel rest evs' with
            | some (out', evs'') => some (out ++ out', evs'')
            | none => none
        | none => none
end

/-- `uniform_random_sampling(assumptions, amount, seed)` along a recorded run: `none` = rejected trace,
`some none` = "unsatisfiable", `some (some samples)` -/
def sampleAlong (nodes : List NType) (n : Nat) (A : List Int) (amount : Nat) (evs : List SEv) :
    Option (Option (List Config)) :=
  if A.any (fun f => f.natAbs > n) then some none
  else if execQuery nodes n A > 0 then
    let negs := A.map (fun f => -f)
    let ct := table 0 (fCountA negs) nodes
    -- True nodes are hidden (temp 0) by preprocess_config_creation
    let temp := fun c => match nodes.getD c .fls with | .tru => 0 | _ => ct.getD c 0
    match replay nodes temp (nodes.length + 1) amount (rootIx nodes) evs with
    | some (out, []) => some (some out)
    | _ => none
  else some none

end Ddnnf
