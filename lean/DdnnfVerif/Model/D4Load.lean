/-
  Loading a d4 file: model of `build_d4_ddnnf` (ddnnife/src/parser.rs) on top of a model of the
  petgraph `StableGraph` operations the loader uses, followed by `IntermediateGraph::rebuild`.

  Phases (as in the Rust code):
    1. nodes and edges; a labelled edge `from -lits-> to` becomes `from -> And -> {literal leaves, to}`
       (literal leaves are shared per literal);
    2. features in 1..total never mentioned on an edge: a new And root with one `Or(f, -f)` triangle each;
    3. True/False elimination in DFS post-order: And drops an edge into True; an Or with a True child
       becomes True itself; Or drops an edge into
       False; an And with a False child is deleted together with its chain of And ancestors;
    3b. features mentioned only next to a False node do not occur below the root any more: they are
       added under the And root like the unmentioned ones (repaired loader);
    4. smoothing: for every Or (DFS post-order) each child that misses variables mentioned by its
       siblings is wrapped in a new And together with the triangles of the missing variables
       (ascending — the repaired iteration order);
    5. flattening by DFS post-order (children visited in insertion order, stored newest first).

  petgraph facts the model encodes: `add_edge` puts the new edge at the head of the source's list,
  so `neighbors` iterates newest first; `DfsPostOrder` pushes all undiscovered successors of a node
  when it is first discovered and emits a node when it is popped the first time after that.
  Node indices are fresh (petgraph re-uses vacant slots, which is unobservable here).
-/
import DdnnfVerif.Model.Basic
namespace Ddnnf.D4

inductive GK where
  | and | or | tru | fls
  | lit (l : Int)
deriving Repr, DecidableEq, Inhabited

inductive Line where
  | node (k : GK)
  | edge (src dst : Nat) (lits : List Int)     -- 1-based node numbers of the file
deriving Repr, DecidableEq

structure G where
  kind : Array (Option GK) := #[]      -- none = removed
  outs : Array (List Nat) := #[]       -- successors, newest edge first
  ins : Array (List Nat) := #[]        -- predecessors, newest edge first
  err : Bool := false                  -- the Rust code would have panicked (index of a removed node)
deriving Inhabited

def G.addNode (g : G) (k : GK) : G × Nat :=
  ({ g with kind := g.kind.push (some k), outs := g.outs.push [], ins := g.ins.push [] }, g.kind.size)

def G.addEdge (g : G) (a b : Nat) : G :=
  { g with outs := g.outs.setIfInBounds a (b :: g.outs.getD a []),
           ins := g.ins.setIfInBounds b (a :: g.ins.getD b []) }

def G.removeEdge (g : G) (a b : Nat) : G :=
  { g with outs := g.outs.setIfInBounds a ((g.outs.getD a []).erase b),
           ins := g.ins.setIfInBounds b ((g.ins.getD b []).erase a) }

def G.kindOf (g : G) (x : Nat) : Option GK := g.kind.getD x none

def G.removeNode (g : G) (x : Nat) : G :=
  let g1 := (g.outs.getD x []).foldl (fun g b => { g with ins := g.ins.setIfInBounds b ((g.ins.getD b []).filter (· != x)) }) g
  let g2 := (g.ins.getD x []).foldl (fun g a => { g with outs := g.outs.setIfInBounds a ((g.outs.getD a []).filter (· != x)) }) g1
  { g2 with kind := g2.kind.setIfInBounds x none, outs := g2.outs.setIfInBounds x [], ins := g2.ins.setIfInBounds x [] }

/-- an or-node with a True child is resolved to True: all its outgoing edges are removed and its
weight is overwritten (repaired loader) -/
def G.makeTrue (g : G) (x : Nat) : G :=
  let g1 := (g.outs.getD x []).foldl (fun g b => { g with ins := g.ins.setIfInBounds b ((g.ins.getD b []).filter (· != x)) }) g
  { g1 with kind := g1.kind.setIfInBounds x (some .tru), outs := g1.outs.setIfInBounds x [] }

/-! ### petgraph's `DfsPostOrder` -/

structure Dfs where
  stack : List Nat            -- head = top
  discovered : Array Bool
  finished : Array Bool
  order : Array Nat

def dfsLoop (outs : Array (List Nat)) : Nat → Dfs → Dfs
  | 0, d => d
  | fuel + 1, d =>
      match d.stack with
      | [] => d
      | nx :: rest =>
          if !d.discovered.getD nx true then
            let disc := d.discovered.setIfInBounds nx true
            let st := (outs.getD nx []).foldl (fun st s => if !disc.getD s true then s :: st else st) d.stack
            dfsLoop outs fuel { d with discovered := disc, stack := st }
          else if !d.finished.getD nx true then
            dfsLoop outs fuel { d with stack := rest, finished := d.finished.setIfInBounds nx true, order := d.order.push nx }
          else dfsLoop outs fuel { d with stack := rest }

def postOrder (g : G) (root : Nat) : List Nat :=
  let n := g.kind.size
  let edges := (g.outs.toList.map List.length).foldl (· + ·) 0
  (dfsLoop g.outs (2 * (n + edges) + 2)
    { stack := [root], discovered := Array.replicate n false, finished := Array.replicate n false, order := #[] }).order.toList

/-! ### phase 1 and 2 -/

structure LState where
  g : G := {}
  indices : Array Nat := #[]                  -- file node number - 1 ↦ graph node
  litNx : List (Int × Nat) := []              -- literal ↦ its leaf
  occurs : List Nat := []                     -- variables mentioned on some edge
  total : Nat := 0
  tri : List (Nat × Nat) := []                -- variable ↦ its Or(f, -f) triangle

def LState.getLit (s : LState) (l : Int) : LState × Nat :=
  match s.litNx.find? (·.1 == l) with
  | some e => (s, e.2)
  | none =>
      let (g, x) := s.g.addNode (.lit l)
      ({ s with g := g, litNx := (l, x) :: s.litNx }, x)

def LState.getLits (s : LState) (ls : List Int) : LState × List Nat :=
  ls.foldl (fun (acc : LState × List Nat) l => let (s', x) := acc.1.getLit l; (s', acc.2 ++ [x])) (s, [])

def stepLine (s : LState) : Line → LState
  | .node k => let (g, x) := s.g.addNode k; { s with g := g, indices := s.indices.push x }
  | .edge a b lits =>
      let s := { s with occurs := lits.foldl (fun (o : List Nat) (l : Int) => if o.contains l.natAbs then o else l.natAbs :: o) s.occurs,
                        total := lits.foldl (fun (t : Nat) (l : Int) => max t l.natAbs) s.total }
      let fromN := s.indices.getD (a - 1) 0
      let toN := s.indices.getD (b - 1) 0
      if lits.isEmpty then { s with g := s.g.addEdge fromN toN }
      else
        let (s, litNodes) := s.getLits lits
        let (g, andN) := s.g.addNode .and
        let g := g.addEdge fromN andN
        let g := litNodes.foldl (fun (g : G) (x : Nat) => g.addEdge andN x) g
        let g := g.addEdge andN toN
        { s with g := g }

/-- `add_literal_node` -/
def LState.addTriangle (s : LState) (f : Nat) (attach : Nat) : LState :=
  match s.tri.find? (·.1 == f) with
  | some e => { s with g := s.g.addEdge attach e.2 }
  | none =>
      let (g, o) := s.g.addNode .or
      let s := { s with g := g, tri := (f, o) :: s.tri }
      let (s, pos) := s.getLit (f : Int)
      let (s, neg) := s.getLit (-(f : Int))
      let g := s.g.addEdge attach o
      let g := g.addEdge o pos
      let g := g.addEdge o neg
      { s with g := g }

/-- unmentioned features hang under a new And root -/
def addFree (s : LState) : LState × Nat :=
  (List.range s.total).foldl (fun (acc : LState × Nat) k =>
    let f := k + 1
    let (s, root) := acc
    if s.occurs.contains f then (s, root)
    else
      let (s, root) :=
        if root == 0 then
          let (g, r) := s.g.addNode .and
          ({ s with g := g.addEdge r 0 }, r)
        else (s, root)
      (s.addTriangle f root, root)) (s, 0)

/-! ### phase 3: True / False elimination -/

def deleteChain (g : G) : Nat → Nat → List Nat → G
  | 0, _, _ => g
  | fuel + 1, current, pending =>
      match g.kindOf current with
      | none => { g with err := true }
      | some k =>
          let (g, pending) :=
            if k == .and then (g.removeNode current, pending ++ (g.ins.getD current []))
            else (g, pending)
          match pending.reverse with
          | [] => g
          | h :: restRev => deleteChain g fuel h restRev.reverse

/-- enough fuel for `deleteChain` (the Rust loop is unbounded): every iteration pops one pending entry,
and at most one entry per incoming edge of a removed and-node is ever pushed -/
def deleteFuel (g : G) : Nat := (g.ins.toList.map List.length).sum + g.kind.size + 1

def elimNode (g : G) (nx : Nat) : G :=
  let rec go : List Nat → G → G
    | [], g => g
    | c :: cs, g =>
        match g.kindOf c with
        | none => go cs g
        | some .tru =>
            (match g.kindOf nx with
             | some .and => go cs (g.removeEdge nx c)
             | some .or => g.makeTrue nx          -- the or-node is True itself; its walker stops
             | none => { g with err := true }
             | _ => { g with err := true })
        | some .fls =>
            (match g.kindOf nx with
             | some .or => go cs (g.removeEdge nx c)
             | some .and => deleteChain g (deleteFuel g) nx []      -- nx is gone: its walker yields nothing more
             | none => { g with err := true }
             | _ => { g with err := true })
        | _ => go cs g
  go (g.outs.getD nx []) g

def eliminate (g : G) (root : Nat) : G := (postOrder g root).foldl elimNode g

/-! ### phase 4: smoothing -/

def insertNat (x : Nat) : List Nat → List Nat
  | [] => [x]
  | y :: ys => if x < y then x :: y :: ys else if x == y then y :: ys else y :: insertNat x ys
def unionNat (a b : List Nat) : List Nat := a.foldl (fun acc x => insertNat x acc) b

/-- sorted variable sets below every node, in DFS post-order (`get_literal_diffs`, abs values) -/
def varSets (g : G) (root : Nat) : Array (List Nat) :=
  (postOrder g root).foldl (fun vs x =>
    let v := match g.kindOf x with
      | some (.lit l) => [l.natAbs]
      | some .and | some .or => (g.outs.getD x []).foldl (fun acc c => unionNat (vs.getD c []) acc) []
      | _ => []
    vs.setIfInBounds x v) (Array.replicate g.kind.size [])

/-- `diff`: for every child the variables of its siblings that it does not mention -/
def missing (cs : List (Nat × List Nat)) : List (Nat × List Nat) :=
  (List.range cs.length).filterMap fun i =>
    let own := (cs.getD i (0, [])).2
    let others := (List.range cs.length).foldl (fun acc j => if j == i then acc else unionNat (cs.getD j (0, [])).2 acc) []
    let miss := others.filter (fun v => !own.contains v)
    if miss.isEmpty then none else some ((cs.getD i (0, [])).1, miss)

/-- ascending order (`sort_unstable` of the collected variables) -/
def sortNat (xs : List Nat) : List Nat := xs.foldr insertNat []

/-- `balance_or_children`.  The missing variables of a child are a `HashSet<u32>` in the Rust code:
`h` stands for its iteration order (any permutation).  The repaired code collects and sorts them
(`sorted = true`); the code before the repair iterated the set directly (`sorted = false`). -/
def balance (sorted : Bool) (h : List Nat → List Nat) (s : LState) (nx : Nat) (work : List (Nat × List Nat)) : LState :=
  work.foldl (fun s (child, miss) =>
    let (g, andN) := s.g.addNode .and
    let g := g.removeEdge nx child
    let g := g.addEdge nx andN
    let g := g.addEdge andN child
    let order := if sorted then sortNat (h miss) else h miss
    order.foldl (fun s f => s.addTriangle f andN) { s with g := g }) s

def smooth (sorted : Bool) (h : List Nat → List Nat) (s : LState) (root : Nat) : LState :=
  let vs := varSets s.g root
  (postOrder s.g root).foldl (fun s nx =>
    match s.g.kindOf nx with
    | some .or => balance sorted h s nx (missing ((s.g.outs.getD nx []).map fun c => (c, vs.getD c [])))
    | _ => s) s

/-- features that are mentioned in the file but no longer occur below the root after the True/False
elimination (they were only mentioned next to a False node) hang under the (new) And root as well
(repaired loader); runs between elimination and smoothing -/
def addVanished (s : LState) (root : Nat) : LState × Nat :=
  let present := (varSets s.g root).getD root []
  (List.range s.total).foldl (fun (acc : LState × Nat) k =>
    let f := k + 1
    let (s, root) := acc
    if !(s.occurs.contains f) || present.contains f then (s, root)
    else
      let (s, root) :=
        if root == 0 then
          let (g, r) := s.g.addNode .and
          ({ s with g := g.addEdge r 0 }, r)
        else (s, root)
      (s.addTriangle f root, root)) (s, root)

/-! ### phase 5: `rebuild` -/

def flattenGraph (g : G) (root : Nat) : List NType :=
  let order := postOrder g root
  let newIx : Array Nat := (order.zip (List.range order.length)).foldl (fun a (x, i) => a.setIfInBounds x i) (Array.replicate g.kind.size 0)
  order.map fun x =>
    let cs := (g.outs.getD x []).map fun c => newIx.getD c 0
    match g.kindOf x with
    | some .and => .and cs
    | some .or => .or cs
    | some (.lit l) => .lit l
    | some .tru => .tru
    | some .fls => .fls
    | none => .fls

/-- the whole loader with an explicit hash-iteration order: `(number_of_variables, nodes, error flag)` -/
def loadWith (sorted : Bool) (h : List Nat → List Nat) (lines : List Line) (totalFeatures : Nat) :
    Nat × List NType × Bool :=
  let s0 : LState := { total := totalFeatures }
  let s1 := lines.foldl stepLine s0
  let (s2, root) := addFree s1
  let g3 := eliminate s2.g root
  let (s3, root) := addVanished { s2 with g := g3 } root
  let s4 := smooth sorted h s3 root
  (s2.total, flattenGraph s4.g root, s4.g.err)

/-- the loader of the current (repaired) code; by `load_independent_of_hash_order` the choice of `h` is irrelevant -/
def load (lines : List Line) (totalFeatures : Nat) : Nat × List NType × Bool :=
  loadWith true id lines totalFeatures

end Ddnnf.D4
