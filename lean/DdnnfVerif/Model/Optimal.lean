/-
  Best and top-k configurations: model of
    ddnnife/src/ddnnf/extended_ddnnf/optimal_configs.rs
  (calc_best_config, calc_top_k_configs, merge_top_k_results_and, merge_top_k_results_or).
  Objective values are integers here (the harness uses integer-valued f64 with |v| ≤ 2^20, for which
  f64 addition is exact).
-/
import DdnnfVerif.Model.Basic
namespace Ddnnf

/-- `OptimalConfig`: value and decided literals -/
structure OC where
  value : Int
  cfg : Config
deriving Repr, DecidableEq, Inhabited

def OC.empty : OC := ⟨0, []⟩
/-- `unify_disjoint` -/
def OC.unify (a b : OC) : OC := ⟨a.value + b.value, a.cfg ++ b.cfg⟩

/-- value of a literal: the objective value of the feature if selected, 0 if deselected -/
def litValue (vals : Nat → Int) (l : Int) : Int := if l > 0 then vals l.natAbs else 0
def cfgValue (vals : Nat → Int) (c : Config) : Int := (c.map (litValue vals)).foldr (· + ·) 0

/-- `Iterator::max` on a non-empty list: the LAST maximal element -/
def lastMax : List OC → Option OC
  | [] => none
  | x :: xs => some (xs.foldl (fun best y => if best.value ≤ y.value then y else best) x)

def fBest (vals : Nat → Int) (A : List Int) : NType → (Nat → Option OC) → Option OC
  | .tru, _ => some OC.empty
  | .fls, _ => none
  | .lit l, _ => if A.contains (-l) then none else some ⟨litValue vals l, [l]⟩
  | .and cs, g =>
      if cs.any (fun c => (g c).isNone) then none
      else some ((cs.filterMap g).foldl OC.unify OC.empty)
  | .or cs, g => lastMax (cs.filterMap g)

def bestConfig (nodes : List NType) (vals : Nat → Int) (A : List Int) : Option OC :=
  val none (fBest vals A) nodes (rootIx nodes)

/-! ### top-k -/

/-- k-way merge of descending lists (`merge_top_k_results_or`): repeatedly take the largest head;
on ties `max_by` picks the LAST list among the maximal heads -/
def bestHead : List (List OC) → Option Nat := fun lists =>
  let rec go : List (List OC) → Nat → Option (Nat × Int) → Option (Nat × Int)
    | [], _, acc => acc
    | l :: rest, i, acc =>
        match l with
        | [] => go rest (i + 1) acc
        | x :: _ =>
            match acc with
            | none => go rest (i + 1) (some (i, x.value))
            | some (j, v) => go rest (i + 1) (if v ≤ x.value then some (i, x.value) else some (j, v))
  (go lists 0 none).map (·.1)

def popAt : List (List OC) → Nat → Option (OC × List (List OC))
  | [], _ => none
  | l :: rest, 0 => match l with
      | [] => none
      | x :: xs => some (x, xs :: rest)
  | l :: rest, i + 1 => (popAt rest i).map fun (x, r) => (x, l :: r)

def mergeOr : Nat → List (List OC) → List OC
  | 0, _ => []
  | fuel + 1, lists =>
      match bestHead lists with
      | none => []
      | some i =>
          match popAt lists i with
          | none => []
          | some (x, lists') => x :: mergeOr fuel lists'

/-- candidate of an index tuple -/
def tupleOC (lists : List (List OC)) (idx : List Nat) : OC :=
  ((lists.zip idx).map (fun (l, i) => l.getD i OC.empty)).foldl OC.unify OC.empty

/-- first maximal candidate of the heap (`BinaryHeap::pop`; ties are broken by the heap's internal
order in Rust — unspecified; the model takes the first maximal one in insertion order) -/
def popMax : List (OC × List Nat) → Option ((OC × List Nat) × List (OC × List Nat))
  | [] => none
  | x :: xs =>
      match popMax xs with
      | none => some (x, [])
      | some (m, rest) => if x.1.value ≥ m.1.value then some (x, xs) else some (m, x :: rest)

def succTuples (lists : List (List OC)) (idx : List Nat) : List (List Nat) :=
  (List.range lists.length).filterMap fun j =>
    if idx.getD j 0 + 1 < (lists.getD j []).length then some (idx.set j (idx.getD j 0 + 1)) else none

/-- frontier search of `merge_top_k_results_and`: `heap` = candidates, `seen` = every tuple inserted so far -/
def mergeAndLoop (lists : List (List OC)) : Nat → List (OC × List Nat) → List (List Nat) → List OC
  | 0, _, _ => []
  | fuel + 1, heap, seen =>
      match popMax heap with
      | none => []
      | some ((best, idx), heap') =>
          let new := (succTuples lists idx).filter (fun t => !seen.contains t)
          best :: mergeAndLoop lists fuel (heap' ++ new.map (fun t => (tupleOC lists t, t))) (seen ++ new)

def mergeAnd (lists : List (List OC)) (k : Nat) : List OC :=
  if lists.any (·.isEmpty) then []
  else
    let amount := min k (prodNat (lists.map List.length))
    let start := List.replicate lists.length 0
    mergeAndLoop lists amount [(tupleOC lists start, start)] [start]

def fTopK (vals : Nat → Int) (A : List Int) (k : Nat) : NType → (Nat → List OC) → List OC
  | .tru, _ => [OC.empty]
  | .fls, _ => []
  | .lit l, _ => if A.contains (-l) then [] else [⟨litValue vals l, [l]⟩]
  | .and cs, g => mergeAnd (cs.map g) k
  | .or cs, g =>
      let lists := cs.map g
      mergeOr (min k (sumNat (lists.map List.length))) lists

def topK (nodes : List NType) (vals : Nat → Int) (A : List Int) (k : Nat) : List OC :=
  val [] (fTopK vals A k) nodes (rootIx nodes)

end Ddnnf
