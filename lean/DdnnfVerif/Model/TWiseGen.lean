/-
  The t-wise construction itself (C09, plain variant `Ddnnf::sample_t_wise`): model of
    ddnnife/src/ddnnf/anomalies/t_wise_sampling.rs                       sample_t_wise
    …/t_wise_sampling/t_wise_sampler.rs      sample, partial_sample, sample_node, trim_and_resample,
                                             trim_sample, complete_partial_configs
    …/t_wise_sampling/config.rs              Config (literal array, cached SAT state, its `complete` flag)
    …/t_wise_sampling/sample.rs              Sample (complete / partial configurations, vars, literals)
    …/t_wise_sampling/sampling_result.rs     SamplingResult
    …/t_wise_sampling/covering_strategies.rs cover, cover_with_caching, cover_with_caching_twise
    …/t_wise_sampling/sample_merger/zipping_merger.rs     zip_samples, interactions, merge, merge_all
    …/t_wise_sampling/sample_merger/similarity_merger.rs  Candidate, merge, is_t_wise_covered_by
    …/t_wise_sampling/t_iterator.rs          TInteractionIter (as the list it enumerates)
    …/t_wise_sampling/sat_wrapper.rs         is_sat_in_subgraph_cached = sat_propagate with a root

  Everything the real code takes from a hash iteration order, from `sort_unstable` on equal keys,
  from floating point ranks or from the random number generator is an input of the model: a queue of
  oracle entries (`OEntry`) consumed in program order.  An entry that is not admissible (not a
  rearrangement of what the code iterates over) is ignored and the canonical order is used, so the
  model is total and the theorems hold for *every* queue; the hooks of the harness record the entries
  of a real run and the driver replays them, which makes the model's sample the real sample exactly.
-/
import DdnnfVerif.Model.SatState
namespace Ddnnf.TW

/-! ### configurations -/

structure Cfg where
  /-- `literals`: one slot per feature, 0 = undecided -/
  lits : Array Int
  /-- `sat_state` -/
  st : Option (Array Bool)
  /-- `sat_state_complete` -/
  stc : Bool
  /-- `n_decided_literals` -/
  nd : Nat
deriving Repr, BEq

def Cfg.decided (c : Cfg) : List Int := c.lits.toList.filter (· != 0)

/-- `contains(literal)` -/
def Cfg.has (c : Cfg) (l : Int) : Bool := c.lits.getD (l.natAbs - 1) 0 == l

def Cfg.add (c : Cfg) (l : Int) : Cfg :=
  if l == 0 then c
  else
    let i := l.natAbs - 1
    { c with stc := false, nd := if c.lits.getD i 0 == 0 then c.nd + 1 else c.nd, lits := c.lits.setIfInBounds i l }

/-- `Extend<i32>` -/
def Cfg.extend (c : Cfg) (ls : List Int) : Cfg := ls.foldl Cfg.add { c with stc := false }

def Cfg.empty (n : Nat) (st : Option (Array Bool)) : Cfg := ⟨Array.replicate n 0, st, false, 0⟩

/-- `Config::from(literals, n)` -/
def Cfg.ofLits (ls : List Int) (n : Nat) : Cfg := (Cfg.empty n none).extend ls

/-- `Config::from_disjoint` -/
def Cfg.fromDisjoint (l r : Cfg) (n : Nat) : Cfg :=
  let st := match l.st, r.st with
    | some a, some b => if l.nd ≥ r.nd then some a else some b
    | some a, none => some a
    | none, some b => some b
    | none, none => none
  ((Cfg.empty n st).extend l.decided).extend r.decided

def Cfg.setSat (c : Cfg) (m : Array Bool) : Cfg := { c with st := some m, stc := true }

def Cfg.conflicts (c : Cfg) (I : List Int) : Bool := (I.filter (· != 0)).any fun l => c.has (-l)
def Cfg.covers (c : Cfg) (I : List Int) : Bool := (I.filter (· != 0)).all fun l => c.has l

/-! ### SAT in a sub-graph with a cached mark vector -/

/-- what the construction reads of the loaded model -/
structure Ctx where
  nodes : List NType
  n : Nat
  /-- `Ddnnf.core` -/
  core : List Int

def Ctx.fresh (cx : Ctx) : Array Bool := Array.replicate cx.nodes.length false

/-- `is_sat_in_subgraph_cached(config, root, state)` = `sat_propagate(config, state, Some(root))` -/
def satSub (cx : Ctx) (root : Nat) (m : Array Bool) (A : List Int) : Array Bool × Bool :=
  if A.any (fun f => cx.core.contains (-f)) then (m, false)
  else SatS.propagateAll cx.nodes root m A

/-- `update_sat_state` -/
def Cfg.updateSat (cx : Ctx) (c : Cfg) (root : Nat) : Cfg :=
  if c.stc then c
  else
    let c1 := match c.st with
      | none => c.setSat cx.fresh
      | some _ => c
    let m := c1.st.getD cx.fresh
    { c1 with st := some (satSub cx root m c.decided).1 }

/-! ### samples -/

structure Sample where
  complete : List Cfg := []
  partials : List Cfg := []
  /-- `vars` (a set; kept ascending without repetitions) -/
  vars : List Nat := []
  /-- `literals` (ascending, without repetitions) -/
  literals : List Int := []
deriving Repr

def insertNat (x : Nat) : List Nat → List Nat
  | [] => [x]
  | y :: ys => if x < y then x :: y :: ys else if x == y then y :: ys else y :: insertNat x ys

def insertInt (x : Int) : List Int → List Int
  | [] => [x]
  | y :: ys => if x < y then x :: y :: ys else if x == y then y :: ys else y :: insertInt x ys

def setOfNat (xs : List Nat) : List Nat := xs.foldr insertNat []
def setOfInt (xs : List Int) : List Int := xs.foldr insertInt []

def Sample.all (s : Sample) : List Cfg := s.complete ++ s.partials
def Sample.len (s : Sample) : Nat := s.complete.length + s.partials.length
def Sample.isEmpty (s : Sample) : Bool := s.complete.isEmpty && s.partials.isEmpty
def Sample.isComplete (s : Sample) (c : Cfg) : Bool := c.nd == s.vars.length
def Sample.addComplete (s : Sample) (c : Cfg) : Sample := { s with complete := s.complete ++ [c] }
def Sample.addPartial (s : Sample) (c : Cfg) : Sample := { s with partials := s.partials ++ [c] }
def Sample.add (s : Sample) (c : Cfg) : Sample := if s.isComplete c then s.addComplete c else s.addPartial c
def Sample.covers (s : Sample) (I : List Int) : Bool := s.all.any fun c => c.covers I

/-- `new_from_samples` -/
def Sample.fromSamples (ss : List Sample) : Sample :=
  { vars := setOfNat (ss.flatMap (·.vars)), literals := setOfInt (ss.flatMap (·.literals)) }

/-- `from_literal` -/
def Sample.ofLiteral (l : Int) (n : Nat) : Sample :=
  { complete := [Cfg.ofLits [l] n], vars := [l.natAbs], literals := [l] }

inductive Res where
  | empty
  | void
  | sample (s : Sample)
deriving Repr

/-- `From<Sample> for SamplingResult` -/
def Res.ofSample (s : Sample) : Res := if s.isEmpty then .empty else .sample s

/-! ### the interaction iterator -/

/-- the `k`-element sublists of `xs`, lexicographic in the positions -/
def combos {α} : Nat → List α → List (List α)
  | 0, _ => [[]]
  | _ + 1, [] => []
  | k + 1, x :: xs => (combos k xs).map (x :: ·) ++ combos (k + 1) xs

/-- what `TInteractionIter::new(literals, k)` enumerates: positions `i₁ < … < i_k` in lexicographic
order, the interaction listed from the largest position down -/
def tIter (lits : List Int) (k : Nat) : List (List Int) := (combos k lits).map List.reverse

/-! ### the oracle -/

inductive OEntry where
  /-- the iteration order of the `HashSet` of cross interactions in `ZippingMerger::merge` -/
  | inter (o : List (List Int))
  /-- `samples.sort_unstable()` in `ZippingMerger::merge_all`: the positions of the sorted samples -/
  | sorted (ix : List Nat)
  /-- `ranks[index] < avg_rank` for every configuration of the root sample -/
  | drop (bs : List Bool)
  /-- the shuffled `literals_to_resample` -/
  | shuf (ls : List Int)
  /-- fitness-guided variant: `merge_sorted_configs`, for every step in which both lists still have an
  element whether the left one was taken (comparison of float averages) -/
  | lr (bs : List Bool)
  /-- fitness-guided variant: the position of an extended partial configuration after
  `cover_with_caching_sorted` moved it (comparisons of float averages) -/
  | moved (k : Nat)
  /-- fitness-guided variant: the configuration `calc_best_config` chose as completion -/
  | best (c : List Int)
deriving Repr

/-- the entries not consumed yet, and how many consumed entries were not admissible (reported by the
driver: a recorded entry that is not admissible means model and code disagree on what is iterated) -/
structure Queue where
  entries : List OEntry := []
  rejected : Nat := 0
deriving Repr

def sameMembers {α} [BEq α] (a b : List α) : Bool := a.all b.contains && b.all a.contains

def Queue.next (q : Queue) (ok : Bool) (rest : List OEntry) : Queue :=
  { entries := rest, rejected := if ok then q.rejected else q.rejected + 1 }

def pickInter (gen : List (List Int)) (q : Queue) : List (List Int) × Queue :=
  match q.entries with
  | .inter o :: rest => if sameMembers o gen then (o, q.next true rest) else (gen, q.next false rest)
  | _ => (gen, q)

def pickShuf (gen : List Int) (q : Queue) : List Int × Queue :=
  match q.entries with
  | .shuf o :: rest => if sameMembers o gen then (o, q.next true rest) else (gen, q.next false rest)
  | _ => (gen, q)

def pickDrop (len : Nat) (q : Queue) : List Bool × Queue :=
  match q.entries with
  | .drop bs :: rest => if bs.length == len then (bs, q.next true rest) else (List.replicate len false, q.next false rest)
  | _ => (List.replicate len false, q)

def isPermOfRange (ix : List Nat) (len : Nat) : Bool :=
  ix.length == len && (List.range len).all ix.contains

def sortedBy {α} (f : α → Nat) : List α → Bool
  | a :: b :: rest => f a ≤ f b && sortedBy f (b :: rest)
  | _ => true

def insertByLen (s : Sample) : List Sample → List Sample
  | [] => [s]
  | y :: ys => if s.len < y.len then s :: y :: ys else y :: insertByLen s ys

/-- a stable sort by the number of configurations (the canonical order) -/
def sortByLen (ss : List Sample) : List Sample := ss.foldr insertByLen []

def pickSorted (ss : List Sample) (q : Queue) : List Sample × Queue :=
  match q.entries with
  | .sorted ix :: rest =>
      let o := ix.filterMap fun i => ss[i]?
      if isPermOfRange ix ss.length && sortedBy Sample.len o then (o, q.next true rest) else (sortByLen ss, q.next false rest)
  | _ => (sortByLen ss, q)

/-! ### covering strategies -/

/-- `cover`: the partial configurations after the call (every configuration that was looked at had
its cached state brought up to date) and the index of the extended configuration -/
def cover (cx : Ctx) (node : Nat) (I : List Int) : List Cfg → Nat → List Cfg × Option Nat
  | [], _ => ([], none)
  | c :: rest, k =>
      if c.conflicts I then
        let (rest', r) := cover cx node I rest (k + 1)
        (c :: rest', r)
      else
        let c1 := c.updateSat cx node
        let (m, ok) := satSub cx node (c1.st.getD cx.fresh) I
        if ok then (((c1.extend I).setSat m) :: rest, some k)
        else
          let (rest', r) := cover cx node I rest (k + 1)
          (c1 :: rest', r)

/-- `Vec::swap_remove` -/
def swapRemove {α} (xs : List α) (i : Nat) : List α :=
  match xs.getLast? with
  | none => xs
  | some last => if i + 1 == xs.length then xs.dropLast else (xs.set i last).dropLast

/-- the common tail of the two strategies: the configuration at `idx` was extended -/
def promote (s : Sample) (idx : Nat) : Sample :=
  match s.partials[idx]? with
  | none => s
  | some c => if s.isComplete c then { s with partials := swapRemove s.partials idx, complete := s.complete ++ [c] } else s

/-- `cover_with_caching_twise` -/
def coverTwise (cx : Ctx) (node : Nat) (s : Sample) (I : List Int) : Sample :=
  if s.covers I then s
  else
    match cover cx node I s.partials 0 with
    | (ps, some idx) => promote { s with partials := ps } idx
    | (ps, none) =>
        let m := (satSub cx node cx.fresh I).1
        ({ s with partials := ps }).add ((Cfg.ofLits I cx.n).setSat m)

/-- `cover_with_caching` -/
def coverChecked (cx : Ctx) (node : Nat) (s : Sample) (I : List Int) : Sample :=
  if s.covers I then s
  else
    let (m, ok) := satSub cx node cx.fresh I
    if !ok then s
    else
      match cover cx node I s.partials 0 with
      | (ps, some idx) => promote { s with partials := ps } idx
      | (ps, none) => ({ s with partials := ps }).add ((Cfg.ofLits I cx.n).setSat m)

/-! ### and-nodes: `ZippingMerger` -/

def withFlag (s : Sample) : List (Cfg × Bool) := s.complete.map (·, true) ++ s.partials.map (·, false)

/-- `zip_samples` -/
def zipSamples (l r : Sample) (n : Nat) : Sample :=
  let s0 := Sample.fromSamples [l, r]
  let s1 := ((withFlag l).zip (withFlag r)).foldl
    (fun s (p : (Cfg × Bool) × (Cfg × Bool)) =>
      let c := Cfg.fromDisjoint p.1.1 p.2.1 n
      if p.1.2 && p.2.2 then s.addComplete c else s.add c) s0
  let remaining := if l.len ≥ r.len then l.all.drop r.len else r.all.drop l.len
  remaining.foldl Sample.addPartial s1

/-- the set `generate_self_interactions` builds for size `k`: the interactions of size `k` inside the
configurations (a configuration with fewer literals contributes all of them); never empty -/
def selfK (s : Sample) (k : Nat) : List (List Int) :=
  let set := (s.all.flatMap fun c => tIter c.decided (min c.decided.length k)).eraseDups
  if set.isEmpty then [[]] else set

/-- `generate_self_interactions`: the sets for `k = 1 .. t-1` -/
def selfInteractions (s : Sample) (t : Nat) : List (List (List Int)) :=
  (List.range (t - 1)).map fun j => selfK s (j + 1)

/-- `interactions`: sizes `k` on the left with `t - k` on the right; the members of the `HashSet` -/
def crossInteractions (l r : Sample) (t : Nat) : List (List Int) :=
  (((selfInteractions l t).zip (selfInteractions r t).reverse).flatMap fun (ls, rs) =>
    ls.flatMap fun a => rs.map fun b => a ++ b).eraseDups

/-- `ZippingMerger::merge` -/
def andMerge (cx : Ctx) (t : Nat) (node : Nat) (l r : Sample) (q : Queue) : Sample × Queue :=
  if l.isEmpty then (r, q)
  else if r.isEmpty then (l, q)
  else
    let (ord, q') := pickInter (crossInteractions l r t) q
    (ord.foldl (coverTwise cx node) (zipSamples l r cx.n), q')

def foldMerge (merge : Sample → Sample → Queue → Sample × Queue) : List Sample → Sample → Queue → Sample × Queue
  | [], acc, q => (acc, q)
  | s :: rest, acc, q =>
      let (acc', q') := merge acc s q
      foldMerge merge rest acc' q'

/-- `ZippingMerger::merge_all` -/
def andMergeAll (cx : Ctx) (t : Nat) (node : Nat) (ss : List Sample) (q : Queue) : Sample × Queue :=
  let singles := ss.filter fun s => s.len ≤ 1
  let others := ss.filter fun s => !(s.len ≤ 1)
  let (single, q1) := foldMerge (andMerge cx t node) singles {} q
  let (sorted, q2) := pickSorted (others ++ [single]) q1
  foldMerge (andMerge cx t node) sorted {} q2

/-! ### or-nodes: `SimilarityMerger` -/

structure Cand where
  cfg : Cfg
  lits : List Int
  maxI : Nat := 0
  totalI : Nat := 0
deriving Repr

def Cand.update (c : Cand) (other : List Int) : Cand :=
  let k := (c.lits.filter other.contains).length
  { c with totalI := c.totalI + k, maxI := if k > c.maxI then k else c.maxI }

/-- `Ord for Candidate`: `a ≤ b` -/
def Cand.le (a b : Cand) : Bool :=
  let x := a.totalI * a.lits.length
  let y := b.totalI * b.lits.length
  if x == y then a.maxI * a.lits.length ≤ b.maxI * b.lits.length else x < y

/-- `Iterator::max_by_key`: the position of the last maximal element -/
def argMax : List Cand → Nat → Option (Nat × Cand) → Option (Nat × Cand)
  | [], _, best => best
  | c :: rest, k, none => argMax rest (k + 1) (some (k, c))
  | c :: rest, k, some (j, b) => if b.le c then argMax rest (k + 1) (some (k, c)) else argMax rest (k + 1) (some (j, b))

/-- `is_t_wise_covered_by` (the order in which the interactions are tested does not influence the answer) -/
def Cand.covered (c : Cand) (s : Sample) (t : Nat) : Bool :=
  if c.maxI == c.lits.length then true
  else if c.lits.length ≥ t && c.maxI < t then false
  else (tIter c.lits (min t c.lits.length)).all s.covers

/-- the `while let` loop; every round removes a candidate -/
def orLoop (t : Nat) : Nat → List Cand → Sample → Sample
  | 0, _, s => s
  | fuel + 1, cands, s =>
      match argMax cands 0 none with
      | none => s
      | some (i, next) =>
          let cands' := swapRemove cands i
          if next.covered s t then orLoop t fuel cands' s
          else orLoop t fuel (cands'.map fun c => c.update next.lits) (s.add next.cfg)

/-- `SimilarityMerger::merge` -/
def orMerge (t : Nat) (l r : Sample) : Sample :=
  if l.isEmpty then r
  else if r.isEmpty then l
  else
    let s0 := Sample.fromSamples [l, r]
    let cands := (l.all ++ r.all).map fun c => ({ cfg := c, lits := c.decided } : Cand)
    match cands.getLast? with
    | none => s0
    | some next =>
        let rest := cands.dropLast.map fun c => c.update next.lits
        orLoop t rest.length rest (s0.add next.cfg)

/-! ### the nodes -/

def resSample : Res → Option Sample
  | .sample s => some s
  | _ => none

def isVoid : Res → Bool
  | .void => true
  | _ => false

/-- `partial_sample(node_id)`; `get` gives the results of the nodes processed so far -/
def partialSample (cx : Ctx) (t : Nat) (get : Nat → Res) (node : Nat) (nd : NType) (q : Queue) : Res × Queue :=
  match nd with
  | .lit l => (.sample (Sample.ofLiteral l cx.n), q)
  | .tru => (.empty, q)
  | .fls => (.void, q)
  | .and cs =>
      let rs := cs.map get
      if rs.any isVoid then (.void, q)
      else
        let (s, q') := andMergeAll cx t node (rs.filterMap resSample) q
        (Res.ofSample s, q')
  | .or cs =>
      let rs := cs.map get
      if rs.all isVoid then (.void, q)
      else (Res.ofSample ((rs.filterMap resSample).foldl (orMerge t) {}), q)

/-- the loop over the node array -/
def sampleNodes (cx : Ctx) (t : Nat) : List NType → Array Res → Queue → Array Res × Queue
  | [], acc, q => (acc, q)
  | nd :: rest, acc, q =>
      let (r, q') := partialSample cx t (fun j => acc.getD j .void) acc.size nd q
      sampleNodes cx t rest (acc.push r) q'

/-! ### the root: trim, resample, complete -/

/-- `trim_sample` with the rank comparison given: the kept configurations and the literals of the
dropped ones -/
def trimSample (s : Sample) (drop : List Bool) : Sample × List Int :=
  let s0 := Sample.fromSamples [s]
  let cl := s.complete.length
  let step := fun (acc : Sample × List Int) (p : (Cfg × Nat)) =>
    if drop.getD p.2 false then (acc.1, acc.2 ++ p.1.decided)
    else if p.2 < cl then (acc.1.addComplete p.1, acc.2)
    else (acc.1.addPartial p.1, acc.2)
  let (s1, ls) := (s.all.zip (List.range s.all.length)).foldl step (s0, [])
  (s1, setOfInt ls)

/-- `trim_and_resample` -/
def trimAndResample (cx : Ctx) (node : Nat) (s : Sample) (t : Nat) (q : Queue) : Sample × Queue :=
  if s.isEmpty then (s, q)
  else
    let t' := min s.vars.length t
    let (drop, q1) := pickDrop s.len q
    let (s1, ls) := trimSample s drop
    let (ls', q2) := pickShuf ls q1
    let s2 := (tIter ls' (min t' ls'.length)).foldl (coverChecked cx node) s1
    (if s2.len < s.len then s2 else s, q2)

/-- one configuration in `complete_partial_configs` -/
def completeCfg (cx : Ctx) (root : Nat) (c : Cfg) : Cfg :=
  ((List.range cx.n).map (· + 1)).foldl
    (fun (c : Cfg) (v : Nat) =>
      if c.has (v : Int) || c.has (-(v : Int)) then c
      else
        let c1 := c.updateSat cx root
        if (satSub cx (rootIx cx.nodes) (c1.st.getD cx.fresh) [(v : Int)]).2 then c1.add (v : Int) else c1.add (-(v : Int)))
    c

def completePartials (cx : Ctx) (root : Nat) (s : Sample) : Sample :=
  { s with partials := s.partials.map (completeCfg cx root) }

/-- `TWiseSampler::sample(t)`, with what is left of the queue -/
def sampleTWiseQ (cx : Ctx) (t : Nat) (q : Queue) : Res × Queue :=
  let (rs, q') := sampleNodes cx t cx.nodes #[] q
  let root := rootIx cx.nodes
  match rs.getD root .void with
  | .sample s =>
      let (s1, q'') := trimAndResample cx root s t q'
      (Res.ofSample (completePartials cx root s1), q'')
  | r => (r, q')

def sampleTWise (cx : Ctx) (t : Nat) (q : Queue) : Res := (sampleTWiseQ cx t q).1

/-! ### the fitness-guided variant (`ExtendedDdnnf::sample_t_wise`)

model of
  …/sample_merger/attribute_zipping_merger.rs     zip_samples, merge, merge_all
  …/sample_merger/attribute_similarity_merger.rs  merge
  …/covering_strategies.rs                         cover_with_caching_sorted
  …/t_wise_sampler.rs                              complete_partial_configs_optimal
  ddnnife/src/ddnnf/extended_ddnnf.rs              merge_sorted_configs, insert_config_sorted
  ddnnife/src/ddnnf/anomalies/t_wise_sampling.rs   ExtendedDdnnf::sample_t_wise

The objective values are floats and only ever compared; every comparison result (and the configuration
`calc_best_config` picks) is an oracle entry, so the theorems hold whatever the values are.
`insert_config_sorted` compares the value of the pushed configuration with the element at its own
index, i.e. with itself (`config_val > val(sorted_configs[curr_idx])` right after the push): the loop
never runs and the configuration stays at the end; it is modelled as that. -/

/-- `merge_sorted_configs` with the comparison results given: `none` if the number of results does
not fit -/
def mergeLR {α} : List Bool → List α → List α → Option (List α)
  | bs, [], r => if bs.isEmpty then some r else none
  | bs, l, [] => if bs.isEmpty then some l else none
  | [], _ :: _, _ :: _ => none
  | b :: bs, x :: l, y :: r =>
      if b then (mergeLR bs l (y :: r)).map (x :: ·) else (mergeLR bs (x :: l) r).map (y :: ·)

/-- the canonical interleaving: always the left element (what the code does when all values are equal) -/
def pickLR {α} (l r : List α) (q : Queue) : List α × Queue :=
  match q.entries with
  | .lr bs :: rest =>
      match mergeLR bs l r with
      | some m => (m, q.next true rest)
      | none => (l ++ r, q.next false rest)
  | _ => (l ++ r, q)

def pickMoved (len : Nat) (dflt : Nat) (q : Queue) : Nat × Queue :=
  match q.entries with
  | .moved k :: rest => if k < len then (k, q.next true rest) else (dflt, q.next false rest)
  | _ => (dflt, q)

/-- the configurations of a sample in the order of `merge_sorted_configs(partial, complete)` -/
def sortedCfgs (s : Sample) (q : Queue) : List Cfg × Queue := pickLR s.partials s.complete q

/-- `insert_config_sorted` into the list the completeness test selects (= push, see above) -/
def Sample.insertSorted (s : Sample) (c : Cfg) : Sample := s.add c

/-- `AttributeZippingMerger::zip_samples` -/
def zipSamplesA (l r : Sample) (n : Nat) (q : Queue) : Sample × Queue :=
  let s0 := Sample.fromSamples [l, r]
  let (ls, q1) := sortedCfgs l q
  let (rs, q2) := sortedCfgs r q1
  let s1 := (ls.zip rs).foldl (fun s (p : Cfg × Cfg) => s.insertSorted (Cfg.fromDisjoint p.1 p.2 n)) s0
  let remaining := if l.len ≥ r.len then ls.drop r.len else rs.drop l.len
  (remaining.foldl Sample.insertSorted s1, q2)

/-- `cover_with_caching_sorted` -/
def coverSorted (cx : Ctx) (node : Nat) (s : Sample) (I : List Int) (q : Queue) : Sample × Queue :=
  if s.covers I then (s, q)
  else
    let (m, ok) := satSub cx node cx.fresh I
    if !ok then (s, q)
    else
      match cover cx node I s.partials 0 with
      | (ps, some idx) =>
          match ps[idx]? with
          | none => ({ s with partials := ps }, q)
          | some c =>
              let s' := { s with partials := ps }
              if s'.isComplete c then ({ s' with partials := ps.eraseIdx idx, complete := s'.complete ++ [c] }, q)
              else
                let (k, q') := pickMoved ps.length idx q
                ({ s' with partials := ((ps.eraseIdx idx).take k) ++ c :: ((ps.eraseIdx idx).drop k) }, q')
      | (ps, none) => (({ s with partials := ps }).add ((Cfg.ofLits I cx.n).setSat m), q)

def foldCoverSorted (cx : Ctx) (node : Nat) : List (List Int) → Sample → Queue → Sample × Queue
  | [], s, q => (s, q)
  | I :: rest, s, q =>
      let (s', q') := coverSorted cx node s I q
      foldCoverSorted cx node rest s' q'

/-- the interactions `AttributeZippingMerger::merge` collects: `k` literals of the left sample's
literal list with `t - k` of the right one's, those not covered after zipping -/
def crossLiterals (l r : Sample) (t : Nat) (zipped : Sample) : List (List Int) :=
  (((List.range (t - 1)).map (· + 1)).flatMap fun k =>
    (tIter l.literals (min l.literals.length k)).flatMap fun a =>
      (tIter r.literals (min r.literals.length (t - k))).map fun b => a ++ b).filter fun X => !zipped.covers X

/-- `AttributeZippingMerger::merge` -/
def andMergeA (cx : Ctx) (t : Nat) (node : Nat) (l r : Sample) (q : Queue) : Sample × Queue :=
  if l.isEmpty then (r, q)
  else if r.isEmpty then (l, q)
  else
    let (z, q1) := zipSamplesA l r cx.n q
    let (ord, q2) := pickInter (crossLiterals l r t z) q1
    foldCoverSorted cx node ord z q2

def insertByLenStable (s : Sample) : List Sample → List Sample
  | [] => [s]
  | y :: ys => if s.len ≤ y.len then s :: y :: ys else y :: insertByLenStable s ys

/-- `Itertools::sorted` (stable) by the number of configurations -/
def sortByLenStable (ss : List Sample) : List Sample := ss.foldr insertByLenStable []

/-- `AttributeZippingMerger::merge_all` -/
def andMergeAllA (cx : Ctx) (t : Nat) (node : Nat) (ss : List Sample) (q : Queue) : Sample × Queue :=
  foldMerge (andMergeA cx t node) (sortByLenStable ss) {} q

/-- `Sample::is_t_wise_covered` -/
def Sample.tWiseCovered (s : Sample) (c : Cfg) (t : Nat) : Bool :=
  (tIter c.decided (min t c.decided.length)).all s.covers

/-- `AttributeSimilarityMerger::merge` -/
def orMergeA (t : Nat) (l r : Sample) (q : Queue) : Sample × Queue :=
  if l.isEmpty then (r, q)
  else if r.isEmpty then (l, q)
  else
    let s0 := Sample.fromSamples [l, r]
    let (ls, q1) := sortedCfgs l q
    let (rs, q2) := sortedCfgs r q1
    let (cands, q3) := pickLR ls rs q2
    (cands.foldl (fun s c => if s.tWiseCovered c t then s else s.add c) s0, q3)

def partialSampleA (cx : Ctx) (t : Nat) (get : Nat → Res) (node : Nat) (nd : NType) (q : Queue) : Res × Queue :=
  match nd with
  | .lit l => (.sample (Sample.ofLiteral l cx.n), q)
  | .tru => (.empty, q)
  | .fls => (.void, q)
  | .and cs =>
      let rs := cs.map get
      if rs.any isVoid then (.void, q)
      else
        let (s, q') := andMergeAllA cx t node (rs.filterMap resSample) q
        (Res.ofSample s, q')
  | .or cs =>
      let rs := cs.map get
      if rs.all isVoid then (.void, q)
      else
        let (s, q') := foldMerge (orMergeA t) (rs.filterMap resSample) {} q
        (Res.ofSample s, q')

def sampleNodesA (cx : Ctx) (t : Nat) : List NType → Array Res → Queue → Array Res × Queue
  | [], acc, q => (acc, q)
  | nd :: rest, acc, q =>
      let (r, q') := partialSampleA cx t (fun j => acc.getD j .void) acc.size nd q
      sampleNodesA cx t rest (acc.push r) q'

/-- is `c` a complete configuration over `1..n` that makes the root true and contains `lits`? -/
def isModelWith (cx : Ctx) (c lits : List Int) : Bool :=
  c.length == cx.n &&
  ((List.range cx.n).all fun k => c.getD k 0 == ((k + 1 : Nat) : Int) || c.getD k 0 == -((k + 1 : Nat) : Int)) &&
  eval (fun v => c.contains (v : Int)) cx.nodes (rootIx cx.nodes) && lits.all c.contains

/-- one step of `complete_partial_configs_optimal`: the completion `calc_best_config` chose, if it is a
model containing the configuration; the SAT-guided completion otherwise -/
def completeBest (cx : Ctx) (root : Nat) (c : Cfg) (q : Queue) : Cfg × Queue :=
  match q.entries with
  | .best b :: rest =>
      if isModelWith cx b c.decided then (Cfg.ofLits b cx.n, q.next true rest)
      else (completeCfg cx root c, q.next false rest)
  | _ => (completeCfg cx root c, q)

/-- `complete_partial_configs_optimal`: the partial configurations are popped from the end, completed
and added (to the complete ones) -/
def completePartialsA (cx : Ctx) (root : Nat) : List Cfg → Sample → Queue → Sample × Queue
  | [], s, q => (s, q)
  | c :: rest, s, q =>
      let (c', q') := completeBest cx root c q
      completePartialsA cx root rest (s.add c') q'

/-- `ExtendedDdnnf::sample_t_wise(t)` -/
def sampleTWiseAQ (cx : Ctx) (t : Nat) (q : Queue) : Res × Queue :=
  let (rs, q') := sampleNodesA cx t cx.nodes #[] q
  let root := rootIx cx.nodes
  match rs.getD root .void with
  | .sample s =>
      let (s1, q1) := trimAndResample cx root s t q'
      let (s2, q2) := completePartialsA cx root s1.partials.reverse { s1 with partials := [] } q1
      (.sample s2, q2)
  | r => (r, q')

def ctxOf (nodes : List NType) (n : Nat) : Ctx := { nodes := nodes, n := n, core := coreOf nodes n }

/-- the configurations the caller sees, in the order of `Sample::iter` -/
def Res.configs : Res → List (List Int)
  | .sample s => s.all.map fun c => c.lits.toList
  | _ => []

/-- `Ddnnf::sample_t_wise(t)` on a loaded model -/
def run (nodes : List NType) (n t : Nat) (q : Queue) : Res := sampleTWise (ctxOf nodes n) t q

/-- `ExtendedDdnnf::sample_t_wise(t)` on a loaded model, whatever the fitness values are -/
def runA (nodes : List NType) (n t : Nat) (q : Queue) : Res := (sampleTWiseAQ (ctxOf nodes n) t q).1

end Ddnnf.TW
