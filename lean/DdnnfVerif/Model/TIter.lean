/-
  The interaction iterator as the state machine it is: model of
    ddnnife/src/ddnnf/anomalies/t_wise_sampling/t_iterator.rs   TIndicesIter (new, advance, get), TInteractionIter
  `Model/TWiseGen.lean` uses the list `tIter lits k` (k-sublists in lexicographic position order, each
  listed from the largest position down); `Proofs/TIter.lean` proves that the state machine enumerates
  exactly that list, and the driver compares both with the real iterator (`q titer n t`).
-/
import DdnnfVerif.Model.TWiseGen
namespace Ddnnf.TI

structure St where
  n : Nat
  t : Nat
  first : Bool
  tuple : Array Nat
deriving Repr

/-- `TIndicesIter::new`: `[t-1, …, 1, 0, 0]` (the last entry is the end marker) -/
def new (n t : Nat) : St := ⟨n, t, true, ((List.range t).reverse ++ [0]).toArray⟩

/-- the carry loop `while tuple[p] >= n - p && tuple[t] == 0 { tuple[p] = 0; p += 1; tuple[p] += 1 }` -/
def carry (n t : Nat) : Nat → Array Nat → Nat → Array Nat
  | 0, tu, _ => tu
  | fuel + 1, tu, p =>
      if tu.getD p 0 ≥ n - p && tu.getD t 0 == 0 then
        let tu1 := tu.setIfInBounds p 0
        carry n t fuel (tu1.setIfInBounds (p + 1) (tu1.getD (p + 1) 0 + 1)) (p + 1)
      else tu

/-- `for j in (0..=t-2).rev() { if tuple[j] < tuple[j+1] { tuple[j] = tuple[j+1] + 1 } }` -/
def fixup (tu : Array Nat) : List Nat → Array Nat
  | [] => tu
  | j :: js =>
      let tu' := if tu.getD j 0 < tu.getD (j + 1) 0 then tu.setIfInBounds j (tu.getD (j + 1) 0 + 1) else tu
      fixup tu' js

/-- `advance` -/
def advance (s : St) : St :=
  if s.first then { s with first := false }
  else
    let tu := s.tuple.setIfInBounds 0 (s.tuple.getD 0 0 + 1)
    if tu.getD 0 0 ≥ s.n then
      let tu1 := carry s.n s.t (s.t + 1) tu 0
      let tu2 := if s.t ≥ 2 then fixup tu1 (List.range (s.t - 1)).reverse else tu1
      { s with tuple := tu2 }
    else { s with tuple := tu }

/-- `get` -/
def get (s : St) : Option (List Nat) :=
  if s.tuple.getD s.t 0 == 0 then some (s.tuple.toList.take s.t) else none

/-- `while let Some(x) = iter.next()` -/
def drain : Nat → St → List (List Nat)
  | 0, _ => []
  | fuel + 1, s =>
      let s' := advance s
      match get s' with
      | some x => x :: drain fuel s'
      | none => []

/-- everything `TIndicesIter::new(n, t)` yields (there are at most `2^n` index sets) -/
def indices (n t : Nat) : List (List Nat) := drain (2 ^ n + 1) (new n t)

/-- `TInteractionIter::new(literals, t)`: the index tuples mapped into the literals -/
def interactions (lits : List Int) (t : Nat) : List (List Int) :=
  (indices lits.length t).map fun ix => ix.map fun i => lits.getD i 0

end Ddnnf.TI
