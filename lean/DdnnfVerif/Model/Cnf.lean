/-
  CNF export by Tseitin transformation: model of ddnnife/src/cnf/into.rs (`Cnf::from(&Ddnnf)`,
  `transform_operation`, `Clauses::from(Biconditional)`) and of ddnnife_cnf's header computation
  (`FromIterator<Clause> for Cnf`: num_variables = number of distinct variables in the clauses).
-/
import DdnnfVerif.Model.Basic
namespace Ddnnf

/-- X ↔ (op over literals): `index`, `isAnd`, `literals` -/
structure Bicond where
  index : Nat
  isAnd : Bool
  lits : List Int
deriving Repr, DecidableEq, Inhabited

/-- clauses of one biconditional -/
def Bicond.clauses (b : Bicond) : List (List Int) :=
  let x : Int := b.index
  if b.isAnd then
    -- X ↔ A ∧ B ∧ …  ⇒ (X ∨ ¬A ∨ ¬B ∨ …) ∧ (¬X ∨ A) ∧ (¬X ∨ B) …
    (x :: b.lits.map (fun l => -l)) :: b.lits.map (fun l => [-x, l])
  else
    -- X ↔ A ∨ B ∨ …  ⇒ (¬X ∨ A ∨ B ∨ …) ∧ (X ∨ ¬A) ∧ (X ∨ ¬B) …
    (-x :: b.lits) :: b.lits.map (fun l => [x, -l])

structure TState where
  next : Nat                         -- `tseitin_index`
  biconds : List Bicond              -- in order of introduction
  cache : List ((Bool × List Int) × Nat)
  nodeLits : Array Int               -- literal representing each node
deriving Inhabited

/-- `transform_operation` -/
def transformOp (isAnd : Bool) (lits : List Int) (st : TState) : Int × TState :=
  match lits with
  | [l] => (l, st)
  | _ =>
    match st.cache.find? (fun e => e.1 == (isAnd, lits)) with
    | some e => ((e.2 : Int), st)
    | none =>
      let cur := st.next
      ((cur : Int), { st with next := cur + 1,
                              biconds := st.biconds ++ [⟨cur, isAnd, lits⟩],
                              cache := ((isAnd, lits), cur) :: st.cache })

def tseitinStep (st : TState) (nd : NType) : TState :=
  let childLits (cs : List Nat) : List Int := cs.map (fun c => st.nodeLits.getD c 0)
  let (lit, st') :=
    match nd with
    | .and cs => transformOp true (childLits cs) st
    | .or cs => transformOp false (childLits cs) st
    | .lit l => (l, st)
    | .tru => transformOp true [] st
    | .fls => transformOp false [] st
  { st' with nodeLits := st'.nodeLits.push lit }

def tseitin (nodes : List NType) (n : Nat) : TState :=
  nodes.foldl tseitinStep { next := n + 1, biconds := [], cache := [], nodeLits := #[] }

def dedupNat : List Nat → List Nat
  | [] => []
  | x :: xs => if xs.contains x then dedupNat xs else x :: dedupNat xs

/-- `(num_variables, clauses)` of the exported CNF -/
def toCnf (nodes : List NType) (n : Nat) : Nat × List (List Int) :=
  let st := tseitin nodes n
  if st.next == n + 1 then (0, [])
  else
    let clauses := st.biconds.flatMap Bicond.clauses ++ [[((st.next - 1 : Nat) : Int)]]
    ((dedupNat (clauses.flatMap (fun c => c.map Int.natAbs))).length, clauses)

/-- a total assignment (indexed by variable) satisfies a clause / a CNF -/
def satClause (τ : Assignment) (c : List Int) : Bool := c.any (litTrue τ)
def satCnf (τ : Assignment) (cs : List (List Int)) : Bool := cs.all (satClause τ)

end Ddnnf
