/-
  Executable checks of the hypotheses of `C01.d4_loader_yields_wellformed_array` /
  `C01.d4_count_is_number_of_models_of_the_text` ("the d4 conventions") on a concrete d4 text.
  They are evaluated by the driver on every generated d4 input (`q d4conv`): the evidence reports how
  many inputs the theorem applies to, and the driver cross-checks the theorem's conclusion (`wfB` of the
  loaded array) on exactly those inputs.  Only for texts with at most `ttLimit` features (determinism and
  satisfiability are decided by truth table).
-/
import DdnnfVerif.Model.D4Load
import DdnnfVerif.Model.WFCheck
namespace Ddnnf.D4

def phase1B (lines : List Line) (total : Nat) : LState := lines.foldl stepLine { total := total }

/-- one round of longest-path relaxation -/
def relax (g : G) (r : Array Nat) : Array Nat :=
  (List.range g.kind.size).foldl
    (fun acc x => acc.setIfInBounds x (((g.outs.getD x []).map fun c => r.getD c 0 + 1).foldl max 0)) r

def iter {α} (f : α → α) : Nat → α → α
  | 0, a => a
  | k + 1, a => iter f k (f a)

/-- longest-path ranks (exact after `size` rounds iff the graph is acyclic) -/
def ranks (g : G) : Array Nat := iter (relax g) (g.kind.size + 1) (Array.replicate g.kind.size 0)

/-- `Acyclic g (ranks g)` -/
def acycB (g : G) : Bool :=
  let r := ranks g
  (List.range (max g.kind.size g.outs.size)).all fun x => (g.outs.getD x []).all fun c => r.getD c 0 < r.getD x 0

/-- `LitNZ g` -/
def litNZCheckB (g : G) : Bool := g.kind.toList.all fun k => match k with | some (.lit l) => l != 0 | _ => true

/-- no node line declares a literal -/
def noDeclB (lines : List Line) : Bool := lines.all fun l => match l with | .node (.lit _) => false | _ => true

/-- the variables mentioned below `x` (fuel = rank + 1 suffices on an acyclic graph) -/
def mentionsL (g : G) : Nat → Nat → List Nat
  | 0, _ => []
  | fuel + 1, x => match g.kindOf x with
      | some (.lit l) => [l.natAbs]
      | some .and => (g.outs.getD x []).flatMap (mentionsL g fuel)
      | some .or => (g.outs.getD x []).flatMap (mentionsL g fuel)
      | _ => []

def pairwiseB {α} (p : α → α → Bool) : List α → Bool
  | [] => true
  | a :: rest => rest.all (p a) && pairwiseB p rest

/-- `GDec g`: the successors of every and-node mention pairwise disjoint variables (by position) -/
def gdecB (g : G) : Bool :=
  let fuel := g.kind.size + 1
  (List.range g.kind.size).all fun x =>
    if g.kindOf x == some .and then
      pairwiseB (fun c d => (mentionsL g fuel c).all fun f => !(mentionsL g fuel d).contains f) (g.outs.getD x [])
    else true

/-- value of node `x` (fuel-bounded, as `evalG` of the proofs) -/
def evalB (σ : Assignment) (g : G) : Nat → Nat → Bool
  | 0, _ => false
  | fuel + 1, x => match g.kindOf x with
      | some .and => (g.outs.getD x []).all (evalB σ g fuel)
      | some .or => (g.outs.getD x []).any (evalB σ g fuel)
      | some (.lit l) => litTrue σ l
      | some .tru => true
      | _ => false

/-- determinism: under every assignment to `1..n` at most one successor (with multiplicity) of an
or-node is true; variables above `n` do not occur when `litRangeB` holds -/
def detB (g : G) (n : Nat) : Bool :=
  let fuel := g.kind.size + 1
  (allBits n).all fun b =>
    let σ := assignOf b
    (List.range g.kind.size).all fun x =>
      if g.kindOf x == some .or then ((g.outs.getD x []).countP (evalB σ g fuel)) ≤ 1 else true

def satB (g : G) (n : Nat) : Bool :=
  (allBits n).any fun b => evalB (assignOf b) g (g.kind.size + 1) 0

/-- every literal of the graph is over a variable `1..n` -/
def litRangeB (g : G) (n : Nat) : Bool :=
  g.kind.toList.all fun k => match k with | some (.lit l) => 1 ≤ l.natAbs && l.natAbs ≤ n | _ => true

/-- all hypotheses of the theorem, for a text over at most 10 features -/
def conventionsB (lines : List Line) (total : Nat) : Bool :=
  let g := (phase1B lines total).g
  let n := (load lines total).1
  lines.any (fun l => match l with | .node _ => true | _ => false) && noDeclB lines && acycB g && litNZCheckB g &&
    litRangeB g n && gdecB g && detB g n && (load lines total).2.2 == false && satB g n

/-- only and/or nodes have out-edges (no edge leaves a `t` / `f` node) -/
def srcInnerCheckB (g : G) : Bool :=
  (List.range g.outs.size).all fun x =>
    (g.outs.getD x []).isEmpty || g.kindOf x == some .and || g.kindOf x == some .or

/-- the conventions plus that structural condition: enough for `WF`, `LitUnique` and `MS.HasParents` of
the loaded array, i.e. for every structural hypothesis of the property theorems -/
def conventions2B (lines : List Line) (total : Nat) : Bool :=
  conventionsB lines total && srcInnerCheckB (phase1B lines total).g

end Ddnnf.D4
