/-
  The clause cache of a model loaded from a CNF: model of `ClauseCache` (ddnnife/src/ddnnf/clause_cache.rs),
  `Ddnnf::update_cached_state` / `swap` / `undo_on_cached_state` (ddnnf.rs) and of the `clause-update`,
  `undo-update` and `save-cnf` arms of the stream handler (stream.rs).

  A clause is a `BTreeSet<i32>`: here a list of literals in ascending order without duplicates (the
  harness and the driver only ever build canonical clauses, so equality of lists is equality of
  sets).  The clause set is a `BTreeSet` of clauses: here a duplicate-free list with
  insert-if-absent / erase; its order is irrelevant (printing sorts).

  The compiler (d4 behind `build_ddnnf`) is not part of the model: the fields `cur` / `old` record
  from which clause set and feature count the live model and the cached previous model were
  compiled.  "Every query answers as for the current CNF" is then: `cur` is the current clause
  set — for a correct compiler.
-/
import DdnnfVerif.Model.Atomic
namespace Ddnnf.CC

abbrev Clause := List Int
abbrev ClauseSet := List Clause

structure Cache where
  clauses : ClauseSet := []
  editAdd : List Clause := []
  editRmv : List Clause := []
  total : Nat := 0
  oldTotal : Nat := 0
  /-- ghost: what the live model was compiled from -/
  cur : ClauseSet × Nat := ([], 0)
  /-- ghost: what `old_state` was compiled from (none: no old state yet) -/
  old : Option (ClauseSet × Nat) := none
deriving Repr, DecidableEq

inductive Verdict where
  | ok | conflict | boundary | rejected
deriving Repr, DecidableEq

/-- `ClauseCache::initialize` (called from `Ddnnf::new` for a CNF input) -/
def init (clauses : ClauseSet) (n : Nat) : Cache :=
  { clauses := clauses, total := n, oldTotal := n, cur := (clauses, n) }

/-- remove the clauses one after the other; `none` as soon as one is absent (the caller rolls back) -/
def removeAll : ClauseSet → List Clause → Option ClauseSet
  | cs, [] => some cs
  | cs, r :: rest => if cs.contains r then removeAll (cs.erase r) rest else none

/-- insert the clauses one after the other; returns the new set and the clauses that were actually
inserted (`BTreeSet::insert` returned true) -/
def insertAll : ClauseSet → List Clause → ClauseSet × List Clause
  | cs, [] => (cs, [])
  | cs, a :: rest =>
      if cs.contains a then insertAll cs rest
      else
        let (cs', added) := insertAll (cs ++ [a]) rest
        (cs', a :: added)

/-- `setup_for_edit` (repaired: only effective insertions are recorded) -/
def setupForEdit (c : Cache) (add rmv : List Clause) (total : Nat) : Option Cache :=
  match removeAll c.clauses rmv with
  | none => none
  | some cs1 =>
      let (cs2, added) := insertAll cs1 add
      some { c with clauses := cs2, editAdd := added, editRmv := rmv, oldTotal := c.total, total := total }

/-- `contains_conflicting_clauses` -/
def conflicts (c : Cache) (t : Nat) : Bool := c.clauses.any fun cl => cl.any fun l => l.natAbs > t

/-- `clause-update [t N] [add ..] [rmv ..]`: the `t` check comes first, then the boundary check of the
clause literals against the (new) feature count, then `update_cached_state` (edit, recompile, swap) -/
def update (c : Cache) (t : Option Nat) (add rmv : List Clause) : Cache × Verdict :=
  if (match t with | some t' => conflicts c t' | none => false) then (c, .conflict)
  else
    let total := t.getD c.cur.2
    if (add ++ rmv).any (fun cl => cl.any fun l => l.natAbs > total) then (c, .boundary)
    else
      match setupForEdit c add rmv total with
      | none => (c, .rejected)
      | some c' => ({ c' with cur := (c'.clauses, total), old := some c.cur }, .ok)

/-- `undo-update`: the result of `setup_for_undo` is ignored by the caller; then the models are swapped
(if an old model exists) -/
def undo (c : Cache) : Cache × Verdict :=
  let c' := (setupForEdit c c.editRmv c.editAdd c.oldTotal).getD c
  match c.old with
  | some o => ({ c' with cur := o, old := some c.cur }, .ok)
  | none => (c', .ok)

inductive Cmd where
  | update (t : Option Nat) (add rmv : List Clause)
  | undo
deriving Repr, DecidableEq

def step (c : Cache) : Cmd → Cache × Verdict
  | .update t add rmv => update c t add rmv
  | .undo => undo c

def run (c : Cache) : List Cmd → Cache × List Verdict
  | [] => (c, [])
  | cmd :: rest =>
      let (c', v) := step c cmd
      let (c'', vs) := run c' rest
      (c'', v :: vs)

/-! ### the abstract clause-set machine of the property -/

structure Spec where
  cur : ClauseSet × Nat
  prev : Option (ClauseSet × Nat) := none
deriving Repr, DecidableEq

def Spec.step (s : Spec) : Cmd → Spec × Verdict
  | .undo =>
      (match s.prev with
       | some p => ({ cur := p, prev := some s.cur }, .ok)
       | none => (s, .ok))
  | .update t add rmv =>
      if (match t with | some t' => s.cur.1.any (fun cl => cl.any fun l => l.natAbs > t') | none => false) then (s, .conflict)
      else
        let total := t.getD s.cur.2
        if (add ++ rmv).any (fun cl => cl.any fun l => l.natAbs > total) then (s, .boundary)
        else
          match removeAll s.cur.1 rmv with
          | none => (s, .rejected)
          | some cs1 => ({ cur := ((insertAll cs1 add).1, total), prev := some s.cur }, .ok)

def Spec.run (s : Spec) : List Cmd → Spec × List Verdict
  | [] => (s, [])
  | cmd :: rest =>
      let (s', v) := s.step cmd
      let (s'', vs) := Spec.run s' rest
      (s'', v :: vs)

/-- `save-cnf`: feature count and clauses, in `BTreeSet` order -/
def saved (c : Cache) : Nat × ClauseSet := (c.cur.2, sortBy' lexLt c.clauses)

end Ddnnf.CC
