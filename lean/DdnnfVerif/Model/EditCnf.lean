/-
  The clause bookkeeping and strategy choice of an incremental edit on a model compiled from a CNF:
  model of
    ddnnife/src/ddnnf.rs                               prepare_and_apply_incremental_edit
    ddnnife/src/parser/from_cnf.rs                     reduce_clause, normalize_clauses, simplify_clauses, apply_decisions
    ddnnife/src/parser/intermediate_representation.rs  apply_incremental_edit (cache lookup, unit clause shortcut,
                                                       recompile_everything), adjust_intern_cnf, switch_sub_dag (Right)
    ddnnife/src/parser/intermediate_representation/fixed_fifo.rs  retain_push / find_and_remove

  A clause is a list of literals read as a set (the code moves them through `HashSet`s, so the order
  inside a clause is not defined; every comparison in the code is a comparison of sets and so is every
  comparison here).  The compiler (d4 behind `build_ddnnf`) is a parameter exactly as in the clause
  cache model: the ghost field `den` records the clause list the live graph was compiled from (plus the
  unit clauses conjoined to it by `add_unit_clause`, whose effect on the graph is the subject of
  Model/Edit.lean).  "Every query answers as for the edited formula" is then a statement about `den`.

  Which of the CNF strategies the code takes for an edit that is neither empty, nor the inverse of a
  cached edit, nor a single unit clause depends on the shape of the graph (bridges, 85 % rule); it is an
  input of the step (`Choice`).  Only the whole-graph recompilation is modelled; after a sub-DAG
  replacement the state is `tainted` and nothing is claimed about it (open finding of C11).
-/
import DdnnfVerif.Model.Cnf
namespace Ddnnf.EC

abbrev Clause := List Int

def taut (c : Clause) : Bool := c.any fun l => c.contains (-l)
def subset (a b : Clause) : Bool := a.all b.contains
def sameSet (a b : Clause) : Bool := subset a b && subset b a

/-- `reduce_clause` with an empty decision set: `none` = the clause is dropped from the edit (empty or
a tautology), `some` = the clause without repeated literals -/
def reduce (c : Clause) : Option Clause :=
  if c.isEmpty || taut c then none else some c.eraseDups

inductive App where
  | add | rmv
deriving Repr, DecidableEq

structure Edit where
  lits : List Int := []
  adds : List Clause := []
  rmvs : List Clause := []
deriving Repr

/-- the loop of `prepare_and_apply_incremental_edit` -/
def prepare : List (Clause × App) → Edit
  | [] => {}
  | (c, app) :: rest =>
      let e := prepare rest
      match reduce c with
      | none => e
      | some r =>
          match app with
          | .add => { e with lits := r ++ e.lits, adds := r :: e.adds }
          | .rmv => { e with lits := r ++ e.lits, rmvs := r :: e.rmvs }

/-- `normalize_clauses`: repeated literals go, tautologies go -/
def normalize (cs : List Clause) : List Clause :=
  (cs.map List.eraseDups).filter fun c => !taut c

def maxVar (cs : List Clause) : Nat := (cs.map fun c => (c.map Int.natAbs).foldl max 0).foldl max 0

/-- `adjust_intern_cnf`: a stored clause stays iff it differs (as a set) from every clause to remove;
the added clauses are appended; the feature count covers the added clauses -/
def adjust (cs : List Clause) (n : Nat) (adds rmvs : List Clause) : List Clause × Nat :=
  let kept := cs.filter fun c => rmvs.all fun r => !sameSet c r
  (normalize (kept ++ adds), max n (maxVar adds))

/-- one round of `apply_decisions`: clauses satisfied by a decision go, literals falsified by a decision
go, clauses that become empty go (silently), clauses that become unit are the next decisions -/
def round (cs : List Clause) (dec : List Int) : List Clause × List Int :=
  let reduced := (cs.filter fun c => !c.any dec.contains).map fun c => c.filter fun l => !dec.contains (-l)
  let kept := reduced.filter fun c => !c.isEmpty
  (kept, (kept.filter fun c => c.length == 1).flatten.eraseDups)

/-- `apply_decisions`: `(remaining clauses, all decisions)`; the loop ends when a round yields no new
decision; `fuel` bounds the number of rounds (every round after the first drops a clause) -/
def applyDecisions : Nat → List Clause → List Int → List Int → List Clause × List Int
  | 0, cs, _, acc => (cs, acc)
  | fuel + 1, cs, dec, acc =>
      if dec.isEmpty then (cs, acc)
      else
        let (cs', new) := round cs dec
        applyDecisions fuel cs' new (acc ++ dec.filter fun d => !acc.contains d)

/-- `simplify_clauses` (run by `IntermediateGraph::new` on the clauses of the CNF file) -/
def simplify (cs : List Clause) : List Clause :=
  let cs0 := normalize cs
  let units := ((cs0.filter fun c => c.length == 1).flatten).eraseDups
  let (rest, dec) := applyDecisions (cs0.length + 2) cs0 units []
  rest ++ dec.map fun d => [d]

structure Snap where
  clauses : List Clause
  nvars : Nat
  /-- ghost: what the graph denotes (a clause list with the same models) -/
  den : List Clause
deriving Repr

structure State where
  cur : Snap
  /-- the undo cache: whole-graph snapshots only (a push of one clears everything else) -/
  cache : List (Edit × Snap) := []
  /-- a sub-DAG replacement ran: nothing is known about the graph any more -/
  tainted : Bool := false
deriving Repr

/-- the model was loaded from a CNF file with these clauses and this header -/
def init (cs : List Clause) (n : Nat) : State :=
  { cur := { clauses := simplify cs, nvars := n, den := cs } }

inductive Strategy where
  | tautology | undo | unitClause | recompile | subDag
deriving Repr, DecidableEq

/-- what the graph-dependent part of the code decided for an edit of the general kind -/
inductive Choice where
  | recompile      -- `transform_to_cnf_from_starting_cnf` gave up (85 % rule / no bridge): `recompile_everything`
  | splice         -- sub-DAG replacement (or its "nothing relevant left" exit)
deriving Repr, DecidableEq

def clauseListsMatch (a b : List Clause) : Bool :=
  (a.all fun x => b.any fun y => sameSet x y) && (b.all fun y => a.any fun x => sameSet x y)

/-- the predicate of `cache.find_and_remove`: same literal set, and the edit is the cached edit with
adds and removes exchanged -/
def isInverseOf (e c : Edit) : Bool :=
  sameSet e.lits c.lits && clauseListsMatch e.adds c.rmvs && clauseListsMatch e.rmvs c.adds

def findRemove (p : α → Bool) : List α → Option (α × List α)
  | [] => none
  | x :: xs => if p x then some (x, xs) else (findRemove p xs).map fun (y, rest) => (y, x :: rest)

/-- `apply_incremental_edit` on a CNF-backed model -/
def applyEdit (s : State) (e : Edit) (ch : Choice) : State × Strategy :=
  if e.adds.isEmpty && e.rmvs.isEmpty then (s, .tautology)
  else
    match findRemove (fun (c : Edit × Snap) => isInverseOf e c.1) s.cache with
    | some ((c, snap), _) =>
        -- `switch_sub_dag (.., Right snapshot)`: the live state is cached under the inverted edit,
        -- every other entry goes, the snapshot becomes the live state
        ({ s with cur := snap, cache := [({ c with adds := c.rmvs, rmvs := c.adds }, s.cur)] }, .undo)
    | none =>
        match e.adds, e.rmvs with
        | [[l]], [] =>
            let (cs, n) := adjust s.cur.clauses s.cur.nvars [[l]] []
            -- every cached snapshot goes; the state right before this edit is cached under the edit, so
            -- that the inverse restores it (feature count included)
            ({ s with cur := { clauses := cs, nvars := n, den := s.cur.den ++ [[l]] }, cache := [(e, s.cur)] }, .unitClause)
        | _, _ =>
            match ch with
            | .splice => ({ s with tainted := true }, .subDag)
            | .recompile =>
                -- adjusted once by `transform_to_cnf_from_starting_cnf`, once more by `recompile_everything`
                let (cs1, n1) := adjust s.cur.clauses s.cur.nvars e.adds e.rmvs
                let (cs2, n2) := adjust cs1 n1 e.adds e.rmvs
                ({ s with cur := { clauses := simplify cs2, nvars := n2, den := cs2 }, cache := [(e, s.cur)] },
                 .recompile)

def step (s : State) (ops : List (Clause × App)) (ch : Choice) : State × Strategy :=
  applyEdit s (prepare ops) ch

/-- the abstract edit the property speaks of: the clauses to remove go (every copy), the clauses to
add are conjoined -/
def specEdit (cs : List Clause) (e : Edit) : List Clause :=
  (cs.filter fun c => e.rmvs.all fun r => !sameSet c r) ++ e.adds

end Ddnnf.EC
