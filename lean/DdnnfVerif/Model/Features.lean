/-
  Per-feature cardinalities via partial derivatives: model of
    ddnnife/src/ddnnf/counting/marking.rs  (annotate_partial_derivatives,
                                            card_of_feature_with_partial_derivatives)
    ddnnife/src/ddnnf/counting/features.rs (card_of_each_feature)
-/
import DdnnfVerif.Model.Basic
namespace Ddnnf

/-- `pd[c] += x` -/
def addAt (pd : Array Nat) (c : Nat) (x : Nat) : Array Nat := pd.setIfInBounds c (pd.getD c 0 + x)

/-- processing node `i` of kind `nd` (its own derivative is final at that point) -/
def pdStep (cnt : Nat → Nat) (pd : Array Nat) (i : Nat) (nd : NType) : Array Nat :=
  match nd with
  | .and cs =>
      cs.foldl (fun pd child =>
        addAt pd child (pd.getD i 0 * prodNat ((cs.filter (fun o => o != child)).map cnt))) pd
  | .or cs => cs.foldl (fun pd child => addAt pd child (pd.getD i 0)) pd
  | _ => pd

/-- the nodes are visited from the root (last) down to index 0; `revNodes` is the reversed node
list, the head of which has index `revNodes.length - 1` -/
def pdLoop (cnt : Nat → Nat) : List NType → Array Nat → Array Nat
  | [], pd => pd
  | nd :: rest, pd => pdLoop cnt rest (pdStep cnt pd rest.length nd)

def annotatePD (nodes : List NType) : Array Nat :=
  let cs := counts nodes
  let init := (Array.replicate nodes.length 0).setIfInBounds (nodes.length - 1) 1
  pdLoop (fun c => cs.getD c 0) nodes.reverse init

/-- index of the (last) leaf carrying literal `l`, as ddnnife's `literals` map -/
def leafIx (nodes : List NType) (l : Int) : Option Nat :=
  let rec go : List NType → Nat → Option Nat → Option Nat
    | [], _, acc => acc
    | nd :: rest, i, acc => go rest (i + 1) (if nd == .lit l then some i else acc)
  go nodes 0 none

/-- `card_of_feature_with_partial_derivatives` for every feature 1..n -/
def cardPD (nodes : List NType) (n : Nat) : List Nat :=
  let pd := annotatePD nodes
  let rc := count nodes (rootIx nodes)
  (List.range n).map fun (k : Nat) =>
    match leafIx nodes (-((k : Int) + 1)) with
    | some i => rc - pd.getD i 0
    | none => rc

end Ddnnf
