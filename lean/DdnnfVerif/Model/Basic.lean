/-
  Layer C of the model: the flattened circuit `Ddnnf.nodes` and the generic bottom-up pass.

  `Ddnnf.nodes` in ddnnife is a `Vec<Node>` in post-order: every child index is smaller than the
  index of its parent and the root is the last element.  Every query algorithm of ddnnife is a
  bottom-up (or top-down) pass over that array.  `table` is that pass.

  No Mathlib import in `Model/*` (the driver executable links these files).
-/
namespace Ddnnf

/-- `NodeType` of ddnnife/src/ddnnf/node.rs (children are indices into the node array). -/
inductive NType where
  | and (cs : List Nat)
  | or (cs : List Nat)
  | lit (l : Int)
  | tru
  | fls
deriving Repr, DecidableEq, Inhabited

/-- Bottom-up pass.  `acc` holds the values of the nodes processed so far; a node sees the value
of child `j` as `acc.getD j dflt` (children always precede their parents in ddnnife's array). -/
def tableAux {α} (dflt : α) (f : NType → (Nat → α) → α) : Array α → List NType → Array α
  | acc, [] => acc
  | acc, nd :: rest => tableAux dflt f (acc.push (f nd (fun j => acc.getD j dflt))) rest

def table {α} (dflt : α) (f : NType → (Nat → α) → α) (nodes : List NType) : Array α :=
  tableAux dflt f #[] nodes

/-- value of node `i` in the pass `f` -/
def val {α} (dflt : α) (f : NType → (Nat → α) → α) (nodes : List NType) (i : Nat) : α :=
  (table dflt f nodes).getD i dflt

/-- index of the root: the last node -/
def rootIx (nodes : List NType) : Nat := nodes.length - 1

def prodNat (xs : List Nat) : Nat := xs.foldr (· * ·) 1
def sumNat (xs : List Nat) : Nat := xs.foldr (· + ·) 0

/-! ### counting (ddnnife: `Node.count`, computed when the array is built) -/

def fCount : NType → (Nat → Nat) → Nat
  | .and cs, g => prodNat (cs.map g)
  | .or cs, g => sumNat (cs.map g)
  | .lit _, _ => 1
  | .tru, _ => 1
  | .fls, _ => 0

def counts (nodes : List NType) : Array Nat := table 0 fCount nodes
def count (nodes : List NType) (i : Nat) : Nat := val 0 fCount nodes i

/-! ### the list of models of a node, in ddnnife's enumeration order -/

abbrev Config := List Int

/-- ordered cartesian product: the *first* list varies fastest and a product element is the
concatenation `x₁ ++ x₂ ++ …` … in ddnnife `enumerate_node` reverses the child lists and calls
`multi_cartesian_product` (last iterator varies fastest), then flattens each tuple.  With
`ls` = child lists in child order, that yields tuples (x_k, …, x_1) with x_1 fastest and the
configuration `x_k ++ … ++ x_1`. -/
def prodConfigs : List (List Config) → List Config
  | [] => [[]]
  | l :: rest => (prodConfigs rest).flatMap (fun tl => l.map (fun hd => tl ++ hd))

def fModels : NType → (Nat → List Config) → List Config
  | .and cs, g => prodConfigs (cs.map g)
  | .or cs, g => (cs.map g).flatten
  | .lit l, _ => [[l]]
  | .tru, _ => [[]]
  | .fls, _ => []

def models (nodes : List NType) (i : Nat) : List Config := val [] fModels nodes i

/-! ### Boolean semantics -/

/-- an assignment gives a truth value to every feature number -/
abbrev Assignment := Nat → Bool

def litTrue (σ : Assignment) (l : Int) : Bool :=
  if l > 0 then σ l.natAbs else if l < 0 then !σ l.natAbs else false

def satCfg (σ : Assignment) (c : Config) : Bool := c.all (litTrue σ)

def fEval (σ : Assignment) : NType → (Nat → Bool) → Bool
  | .and cs, g => cs.all g
  | .or cs, g => cs.any g
  | .lit l, _ => litTrue σ l
  | .tru, _ => true
  | .fls, _ => false

def eval (σ : Assignment) (nodes : List NType) (i : Nat) : Bool := val false (fEval σ) nodes i

/-- all bit vectors of length `n` -/
def allBits : Nat → List (List Bool)
  | 0 => [[]]
  | n + 1 => (allBits n).flatMap (fun b => [b ++ [false], b ++ [true]])

/-- feature `v` (1-based) is selected in bit vector `b` -/
def assignOf (b : List Bool) : Assignment := fun v => v ≥ 1 && b.getD (v - 1) false

/-- Layer S: the number of assignments to features `1..n` that satisfy node `i` and contain all
literals of `A`.  This is the meaning of "number of models containing A" in the properties. -/
def specCount (nodes : List NType) (n : Nat) (A : List Int) : Nat :=
  ((allBits n).filter (fun b => eval (assignOf b) nodes (rootIx nodes) && A.all (litTrue (assignOf b)))).length

/-! ### variables of a node and the structural well-formedness predicates -/

def fVars (cnt : Nat → Nat) : NType → (Nat → List Nat) → List Nat
  | .and cs, g => (cs.map g).flatten
  | .or cs, g => match cs.filter (fun c => cnt c != 0) with
      | [] => []
      | c :: _ => g c
  | .lit l, _ => [l.natAbs]
  | .tru, _ => []
  | .fls, _ => []

def vars (nodes : List NType) (i : Nat) : List Nat :=
  val [] (fVars (count nodes)) nodes i

def children : NType → List Nat
  | .and cs => cs
  | .or cs => cs
  | _ => []

/-- children precede parents -/
def Topo (nodes : List NType) : Prop :=
  ∀ i (h : i < nodes.length), ∀ c ∈ children nodes[i], c < i

/-- and-nodes: the variable lists of the children are pairwise disjoint and duplicate free -/
def Decomposable (nodes : List NType) : Prop :=
  ∀ i (h : i < nodes.length), ∀ cs, nodes[i] = .and cs → ((cs.map (vars nodes)).flatten).Nodup

/-- or-nodes: every child that has a model mentions exactly the variables of the node -/
def Smooth (nodes : List NType) : Prop :=
  ∀ i (h : i < nodes.length), ∀ cs, nodes[i] = .or cs →
    ∀ c ∈ cs, count nodes c ≠ 0 → (vars nodes c).Perm (vars nodes i)

/-- or-nodes: no assignment satisfies two children (a repeated child counts twice) -/
def Deterministic (nodes : List NType) : Prop :=
  ∀ i (h : i < nodes.length), ∀ cs, nodes[i] = .or cs →
    ∀ σ : Assignment, cs.countP (fun c => eval σ nodes c) ≤ 1

/-- the root mentions exactly the features `1..n` -/
def RootComplete (nodes : List NType) (n : Nat) : Prop :=
  (vars nodes (rootIx nodes)).Perm ((List.range n).map (· + 1))

/-- literal leaves carry non-zero literals -/
def LitNonzero (nodes : List NType) : Prop :=
  ∀ i (h : i < nodes.length), ∀ l, nodes[i] = .lit l → l ≠ 0

structure WF (nodes : List NType) (n : Nat) : Prop where
  nonempty : nodes ≠ []
  topo : Topo nodes
  litnz : LitNonzero nodes
  decomposable : Decomposable nodes
  smooth : Smooth nodes
  deterministic : Deterministic nodes
  rootComplete : RootComplete nodes n

/-! #### executable versions of the predicates (run by the driver on every exported circuit) -/

def topoB (nodes : List NType) : Bool :=
  (List.range nodes.length).all fun i => (children (nodes.getD i .tru)).all (· < i)

def litnzB (nodes : List NType) : Bool :=
  nodes.all fun nd => match nd with | .lit l => l != 0 | _ => true

def nodupB : List Nat → Bool
  | [] => true
  | x :: xs => !xs.contains x && nodupB xs

def permB (a b : List Nat) : Bool :=
  a.length == b.length && nodupB a && nodupB b && a.all b.contains

end Ddnnf
