/-
  Counting under assumptions, SAT and core/dead: models of
    ddnnife/src/ddnnf.rs                      (execute_query)
    ddnnife/src/ddnnf/counting/default_count.rs
    ddnnife/src/ddnnf/counting/marking.rs
    ddnnife/src/ddnnf/anomalies/core.rs
    ddnnife/src/ddnnf/anomalies/sat.rs
-/
import DdnnfVerif.Model.Basic
import DdnnfVerif.Model.Features
namespace Ddnnf

/-- `Ddnnf.literals.contains_key(l)`: a leaf for literal `l` exists in the node array -/
def hasLit (nodes : List NType) (l : Int) : Bool := nodes.contains (.lit l)

/-- the syntactic core of ddnnife before the fix of `calculate_core`: literals in `-n..=n` whose
leaf exists while the complementary leaf does not (kept for reference and for the proofs) -/
def coreSynOf (nodes : List NType) (n : Nat) : List Int :=
  ((List.range (2 * n + 1)).map (fun (k : Nat) => (k : Int) - (n : Int))).filter
    (fun f => hasLit nodes f && !hasLit nodes (-f))

/-- `calculate_core`: literals in `-n..=n` whose leaf exists while the complementary leaf does not
exist or is part of no configuration (partial derivative 0) -/
def coreOf (nodes : List NType) (n : Nat) : List Int :=
  let pd := annotatePD nodes
  ((List.range (2 * n + 1)).map (fun (k : Nat) => (k : Int) - (n : Int))).filter
    (fun f => hasLit nodes f &&
      (match leafIx nodes (-f) with
       | some i => pd.getD i 0 == 0
       | none => true))

/-! ### default strategy: recompute every node with the complementary leaves set to 0 -/

/-- `negs` = the leaves whose temp is forced to 0 (the complements of the assumed literals) -/
def fCountA (negs : List Int) : NType → (Nat → Nat) → Nat
  | .lit l, _ => if negs.contains l then 0 else 1
  | nd, g => fCount nd g

def countA (nodes : List NType) (negs : List Int) (i : Nat) : Nat := val 0 (fCountA negs) nodes i

/-- models of a node that are compatible with the assumptions -/
def fModelsA (negs : List Int) : NType → (Nat → List Config) → List Config
  | .lit l, _ => if negs.contains l then [] else [[l]]
  | nd, g => fModels nd g

def modelsA (nodes : List NType) (negs : List Int) (i : Nat) : List Config :=
  val [] (fModelsA negs) nodes i

/-! ### marking strategy -/

structure MK where
  count : Nat
  marked : Bool
  temp : Nat
deriving Repr, Inhabited

/-- value a parent reads from a child: `temp` if the child is marked, `count` otherwise -/
def MK.sel (m : MK) : Nat := if m.marked then m.temp else m.count

/-- the "few children are marked" branch of `calc_count_marked_node`: start from the cached count,
divide by the child's count (unless that is 0) and multiply by its temp -/
def divStep (g : Nat → MK) (acc : Nat) (c : Nat) : Nat :=
  (if (g c).count != 0 then acc / (g c).count else acc) * (g c).temp

def fMarker (negs : List Int) : NType → (Nat → MK) → MK
  | .lit l, _ => if negs.contains l then ⟨1, true, 0⟩ else ⟨1, false, 1⟩
  | .tru, _ => ⟨1, false, 1⟩
  | .fls, _ => ⟨0, false, 0⟩
  | .and cs, g =>
      let cnt := prodNat (cs.map fun c => (g c).count)
      let mcs := cs.filter fun c => (g c).marked
      if mcs.isEmpty then ⟨cnt, false, cnt⟩
      else if mcs.length ≤ cs.length / 2 then ⟨cnt, true, mcs.foldl (divStep g) cnt⟩
      else ⟨cnt, true, prodNat (cs.map fun c => (g c).sel)⟩
  | .or cs, g =>
      let cnt := sumNat (cs.map fun c => (g c).count)
      if (cs.filter fun c => (g c).marked).isEmpty then ⟨cnt, false, cnt⟩
      else ⟨cnt, true, sumNat (cs.map fun c => (g c).sel)⟩

def markerCount (nodes : List NType) (negs : List Int) : Nat :=
  (val ⟨0, false, 0⟩ (fMarker negs) nodes (rootIx nodes)).sel

/-! ### `execute_query` with its dispatch on the length of the list -/

def execQueryCore (core : List Int) (nodes : List NType) (A : List Int) : Nat :=
  let rc := count nodes (rootIx nodes)
  match A with
  | [] => rc
  | [f] =>
      if core.contains f then rc
      else if core.contains (-f) then 0
      else if hasLit nodes (-f) then markerCount nodes [-f] else rc
  | _ =>
      if A.any (fun f => core.contains (-f)) then 0
      else
        let A' := A.filter (fun f => !core.contains f)
        if A.length ≤ 20 then
          let negs := (A'.map (fun f => -f)).filter (hasLit nodes)
          if negs.isEmpty then rc else markerCount nodes negs
        else
          countA nodes (A'.map (fun f => -f)) (rootIx nodes)

def execQuery (nodes : List NType) (n : Nat) (A : List Int) : Nat :=
  execQueryCore (coreOf nodes n) nodes A

/-! ### SAT (`sat_propagate`): the set of marked nodes is the least fixpoint of
  leaf ¬f marked; and: some child marked; or: some child marked and all children marked or count 0 -/

def fSatMark (negs : List Int) : NType → (Nat → Bool × Nat) → Bool × Nat
  | .lit l, _ => (negs.contains l, 1)
  | .tru, _ => (false, 1)
  | .fls, _ => (false, 0)
  | .and cs, g => (cs.any (fun c => (g c).1), prodNat (cs.map fun c => (g c).2))
  | .or cs, g => (cs.any (fun c => (g c).1) && cs.all (fun c => (g c).1 || (g c).2 == 0),
                  sumNat (cs.map fun c => (g c).2))

def satMarks (nodes : List NType) (negs : List Int) : Array (Bool × Nat) :=
  table (false, 0) (fSatMark negs) nodes

def satQueryCore (core : List Int) (nodes : List NType) (A : List Int) : Bool :=
  if A.any (fun f => core.contains (-f)) then false
  else !((satMarks nodes (A.map (fun f => -f))).getD (rootIx nodes) (false, 0)).1

def satQuery (nodes : List NType) (n : Nat) (A : List Int) : Bool :=
  satQueryCore (coreOf nodes n) nodes A

/-! ### core / dead with assumptions (`core_dead_with_assumptions`) -/

def coreDeadA (nodes : List NType) (n : Nat) (A : List Int) : List Int :=
  if A.isEmpty then coreOf nodes n
  else
    let ref := execQuery nodes n A
    (List.range n).flatMap fun (k : Nat) =>
      let i : Int := (k : Int) + 1
      let inter := execQuery nodes n (A ++ [i])
      (if ref == inter then [i] else []) ++ (if inter == 0 then [-i] else [])

end Ddnnf
