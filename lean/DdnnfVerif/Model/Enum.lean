/-
  Enumeration with paging: model of ddnnife/src/ddnnf/anomalies/config_creation.rs
  (`enumerate`, `preprocess_config_creation`, `enumerate_node`) after the repairs
  "Or arm applies the window", "cursor per model", "cursor locked from read to write".
-/
import DdnnfVerif.Model.Query
namespace Ddnnf

/-- per node: `temp` (count under the assumptions), whether the node is a `True` node (skipped by
index in and-nodes, hidden with temp 0 in or-nodes) and the function `r ↦ enumerate_node((0, r), i)` -/
structure EV where
  temp : Nat
  isTru : Bool
  pre : Nat → List Config

instance : Inhabited EV := ⟨⟨0, false, fun _ => []⟩⟩

/-- one child of an and-node: while the accumulated amount is `< r` ask the child for
`min r temp` configurations, afterwards only for its first one -/
def andStep (g : Nat → EV) (r : Nat) (st : Nat × List (List Config)) (c : Nat) : Nat × List (List Config) :=
  if (g c).isTru then st
  else if st.1 < r then
    let ch := min r (g c).temp
    (st.1 * ch, st.2 ++ [(g c).pre ch])
  else (st.1, st.2 ++ [((g c).pre 1).take 1])

/-- one child of an or-node: `(acc, out, stopped)` -/
def orStep (g : Nat → EV) (r : Nat) (st : Nat × List Config × Bool) (c : Nat) : Nat × List Config × Bool :=
  if st.2.2 then st
  else if (g c).temp == 0 || (g c).isTru then st
  else if st.1 < r then
    let ch := min r (g c).temp
    (st.1 + ch, st.2.1 ++ (g c).pre ch, false)
  else (st.1, st.2.1, true)

def fEnum (negs : List Int) : NType → (Nat → EV) → EV
  | .lit l, _ =>
      let t := if negs.contains l then 0 else 1
      ⟨t, false, fun r => if r == 0 || t == 0 then [] else [[l]]⟩
  | .tru, _ => ⟨1, true, fun _ => []⟩
  | .fls, _ => ⟨0, false, fun _ => []⟩
  | .and cs, g =>
      let t := prodNat (cs.map fun c => (g c).temp)
      ⟨t, false, fun r =>
        if r == 0 || t == 0 then []
        else ((prodConfigs (cs.foldl (andStep g r) (1, [])).2).take r)⟩
  | .or cs, g =>
      let t := sumNat (cs.map fun c => (g c).temp)
      ⟨t, false, fun r =>
        if r == 0 || t == 0 then []
        else ((cs.foldl (orStep g r) (0, [], false)).2.1.take r)⟩

/-- `enumerate_node((0, r), root)` -/
def enumPre (nodes : List NType) (negs : List Int) (i : Nat) (r : Nat) : List Config :=
  (val default (fEnum negs) nodes i).pre r

/-- `enumerate_node((r0, r1), root)` -/
def enumNode (nodes : List NType) (negs : List Int) (r0 r1 : Nat) : List Config :=
  (enumPre nodes negs (rootIx nodes) r1).drop r0

/-! ### the cursor state machine -/

def insertAbs (x : Int) : List Int → List Int
  | [] => [x]
  | y :: ys => if x.natAbs < y.natAbs then x :: y :: ys else y :: insertAbs x ys

/-- `assumptions.sort_unstable_by_key(|f| f.abs())` (the order of literals with equal |·| is
unspecified in Rust; such lists are either contradictory or contain equal elements) -/
def sortAbs (xs : List Int) : List Int := xs.foldr insertAbs []

abbrev Cursor := List (List Int × Nat)

def Cursor.get (c : Cursor) (k : List Int) : Nat :=
  match c.find? (fun e => e.1 == k) with
  | some e => e.2
  | none => 0

def Cursor.set (c : Cursor) (k : List Int) (v : Nat) : Cursor :=
  (k, v) :: c.filter (fun e => !(e.1 == k))

/-- one `enumerate(assumptions, amount)` request: new cursor and `Some(page)` / `None` -/
def enumerate (nodes : List NType) (n : Nat) (cur : Cursor) (A : List Int) (amount : Nat) :
    Cursor × Option (List Config) :=
  if amount == 0 then (cur, some [])
  else if A.any (fun f => f.natAbs > n) then (cur, none)
  else
    let key := sortAbs A
    if execQuery nodes n key > 0 then
      let negs := key.map (fun f => -f)
      let rt := countA nodes negs (rootIx nodes)
      let last := cur.get key
      let stop := min rt (last + amount)
      (cur.set key (stop % rt), some (enumNode nodes negs last stop))
    else (cur, none)

end Ddnnf
